// native-real build only: run the harness under the real C++ runtime; an escaping exception is recorded the way the
// generated-C exception model records it (vf_exc != 0).
#include <exception>
#include <cstdio>
extern "C" void* vf_exc;
extern "C" void vf_run_harness(void (*f)(void)) {
  try { f(); } catch (const std::exception& e) { std::printf("ESCAPED-EXCEPTION %s\n", e.what()); vf_exc = (void*)1; } catch (...) { std::printf("ESCAPED-EXCEPTION ?\n"); vf_exc = (void*)1; }
}
extern "C" void vf_global_ctors(void) {}
