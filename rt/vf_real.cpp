// native-real build only: run the harness under the real C++ runtime; an escaping exception is recorded the way the
// generated-C exception model records it (vf_exc != 0).
#include <exception>
#include <cstdio>
#include <cstdlib>
extern "C" void* vf_exc;
extern "C" void vf_run_harness(void (*f)(void)) {
  try { f(); } catch (const std::exception& e) { std::printf("ESCAPED-EXCEPTION %s\n", e.what()); vf_exc = (void*)1; } catch (...) { std::printf("ESCAPED-EXCEPTION ?\n"); vf_exc = (void*)1; }
}
extern "C" void vf_global_ctors(void) {}
extern "C" void vf_unresolved_stub(const char* name) { std::printf("UNRESOLVED-STUB-REACHED %s\n", name); std::fflush(stdout); std::abort(); }
// The real build's std::chrono clocks read the same symbolic clock as the model (libstdc++ calls clock_gettime).
#include <time.h>
extern "C" long long vf_clock_now;
extern "C" int clock_gettime(clockid_t, struct timespec* ts) { ts->tv_sec = vf_clock_now / 1000000000LL; ts->tv_nsec = vf_clock_now % 1000000000LL; return 0; }
// sleeping in the real build advances the symbolic clock instead of wall time
extern "C" int nanosleep(const struct timespec* req, struct timespec*) { vf_clock_now += req->tv_sec * 1000000000LL + req->tv_nsec; return 0; }
extern "C" int clock_nanosleep(clockid_t, int, const struct timespec* req, struct timespec*) { vf_clock_now += req->tv_sec * 1000000000LL + req->tv_nsec; return 0; }
