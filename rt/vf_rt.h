/* Runtime shared by the generated C (ll2c output), the environment models and the oracles.
 * Compiled three ways:
 *   - by CBMC (__CPROVER__ defined): assertions/assumptions are solver obligations, nondeterminism is symbolic;
 *   - natively with gcc together with the generated C ("native-gen": validates ll2c + vstl);
 *   - natively with g++/libstdc++ together with the real oomd sources ("native-real": replay / differential). */
#ifndef VF_RT_H
#define VF_RT_H
#include <stdint.h>
#include <stddef.h>
#include <string.h>
#include <math.h>
#include <stdlib.h>
#ifdef __cplusplus
extern "C" {
#endif
struct vf_typeinfo { const struct vf_typeinfo* base; int id; };
#ifndef __CPROVER__
#define __CPROVER_atomic_begin() ((void)0)   /* native builds of the generated C are single threaded */
#define __CPROVER_atomic_end() ((void)0)
#endif
extern void* vf_exc;                       /* pending exception object, 0 if none */
extern const struct vf_typeinfo* vf_exc_ti;
extern int vf_exc_caughtall;
void vf_lp_enter(void); const struct vf_typeinfo* vf_lp_ti(void); void vf_lp_resume(void);   /* landing-pad protocol of the generated C */
extern int vf_bound_hit;
int vf_ti_is_a(const struct vf_typeinfo* thrown, const struct vf_typeinfo* target);
void vf_unreachable(void);
void vf_trap(void);
void vf_unsupported(const char* what);

/* ---- checks ---- */
#ifdef __CPROVER__
#define VF_CHECK(c, m) __CPROVER_assert((c), m)
#define VF_ASSUME(c) __CPROVER_assume(c)
#define VF_FAIL(m) do { __CPROVER_assert(0, m); __CPROVER_assume(0); } while (0)
#else
void vf_native_fail(const char* label, int fatal);
void vf_native_assume_fail(void);
#define VF_CHECK(c, m) do { if (!(c)) vf_native_fail(m, 0); } while (0)
#define VF_ASSUME(c) do { if (!(c)) vf_native_assume_fail(); } while (0)
#define VF_FAIL(m) vf_native_fail(m, 1)
#endif
/* WITNESS/REACH obligations are *expected to fail*: they prove the harness is not vacuous. */
#define VF_REACH(m) VF_CHECK(0, "REACH: " m)

/* ---- keyed nondeterminism: value in [lo,hi]; (key, k-th use of key) identifies the choice for replay ---- */
/* NOTE: functions callable from translated C++ use ll2c's type mapping (intN -> uintN_t, char* -> uint8_t*);
 * the C++ side declares them with the natural signed types (same ABI). Values are signed where it matters. */
uint64_t vf_nd(uint32_t key, uint64_t lo, uint64_t hi);   /* signed range [lo,hi] */
double vf_nd_double(uint32_t key);       /* arbitrary double, incl. NaN/inf (harness constrains it) */
float vf_nd_float(uint32_t key);
void vf_assume(uint32_t c);
uint32_t vf_uuid_serial_of(uint8_t* s);
void vf_objcopy(uint8_t* dst, uint8_t* src, uint64_t n);
void vf_fail(uint8_t* what);
void vf_bound(uint8_t* what);
uint64_t vf_strtoll(uint8_t* s, uint64_t n, uint64_t* used, uint32_t* err);
uint64_t vf_strtoull(uint8_t* s, uint64_t n, uint64_t* used, uint32_t* err);
double vf_strtod(uint8_t* s, uint64_t n, uint64_t* used, uint32_t* err);
void vf_run_harness(void (*f)(void));   /* calls f; in the real build an escaping C++ exception sets vf_exc */

/* ---- events: every observable action is handed to the harness's oracle monitor vf_on_event() as it happens.
 * Oracles keep events in slots addressed by *concrete* indices (tick, plugin id, ...) plus a global sequence number,
 * never in an array indexed by a symbolic cursor (that is what makes bounded symbolic execution of long logs cheap).
 * Native builds additionally print the events, for differential comparison of generated C vs the real build. ---- */
void vf_event(uint32_t kind, uint64_t a, uint64_t b, uint64_t c, uint64_t d);
void vf_on_event(int kind, int64_t a, int64_t b, int64_t c, int64_t d);   /* defined by the harness oracle */
extern int64_t vf_seq;   /* number of events so far */

/* ---- symbolic monotonic clock (ns). Advances only through vf_clock_advance / vf_clock_set ---- */
uint64_t vf_clock_ns(void);
extern int64_t vf_clock_now;
void vf_clock_advance(uint64_t d);
void vf_sleep_ns(uint64_t ns);   /* std::this_thread::sleep_for in the model: advances the symbolic clock */

/* ---- harness configuration table: written by the C++ harness, read by the C oracle ---- */
#ifndef VF_CFG_N
#define VF_CFG_N 12
#endif
#ifndef VF_CFG_M
#define VF_CFG_M 8
#endif
extern int64_t vf_cfg[VF_CFG_N][VF_CFG_M];
void vf_cfg_set(uint32_t which, uint32_t idx, uint64_t val);
uint64_t vf_cfg_get(uint32_t which, uint32_t idx);

/* ---- sequential models of the threading primitives used by vstl <mutex>/<condition_variable>/<thread> ---- */
void vf_mutex_lock(uint32_t* m);
void vf_mutex_unlock(uint32_t* m);
void vf_cv_wait(uint8_t* cv, uint32_t* m);
void vf_cv_notify(uint8_t* cv, uint32_t all);
void vf_thread_spawn(void (*fn)(uint8_t*), uint8_t* arg);
uint32_t vf_nondet_int(void);
uint64_t vf_nondet_u64(void);
/* ---- ostream hook (only with -DVSTL_OSTREAM_HOOK) ---- */
void vf_os_write(uint8_t* os, uint8_t* s, uint64_t n);
void vf_os_int(uint8_t* os, uint64_t v);

void vf_global_ctors(void);
#ifdef __cplusplus
}
#endif
#endif
