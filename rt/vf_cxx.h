#pragma once
/* C++-side view of the verification runtime (rt/vf_rt.h has the C view; same ABI). */
#include <stddef.h>
#include <stdint.h>
extern "C" {
void vf_fail(const char* what);          /* UB / library precondition violated: becomes an assertion (ll2c emits VF_FAIL with the literal) */
void vf_bound(const char* what);         /* model bound exceeded: assume(false) + recorded */
void vf_check(int ok, const char* label); /* harness assertion; label must be a string literal (ll2c emits VF_CHECK) */
void vf_assume(int c);
int64_t vf_nd(int key, int64_t lo, int64_t hi);
double vf_nd_double(int key);
float vf_nd_float(int key);
void vf_event(int kind, int64_t a, int64_t b, int64_t c, int64_t d);
int64_t vf_clock_ns(void);
void vf_clock_advance(int64_t d);
void vf_cfg_set(int which, int idx, int64_t val);
int64_t vf_cfg_get(int which, int idx);
int vf_uuid_serial_of(const char* s);
void vf_objcopy(void* dst, const void* src, size_t n) noexcept;   /* whole-object copy (ll2c emits a typed aggregate assignment) */
}
