/* Exception / allocation / libc-leaf runtime for ll2c output, plus nondeterminism, event log and clock. */
#include "vf_rt.h"
#ifndef __CPROVER__
#include <stdio.h>
#endif

/* ------------------------------------------------------------------ exceptions */
void* vf_exc; const struct vf_typeinfo* vf_exc_ti; int vf_exc_caughtall;
static void* vf_caught[4]; static const struct vf_typeinfo* vf_caught_ti[4]; static int vf_ncaught;
/* exceptions taken out of flight by a landing pad (cleanup code / handler selection in progress) */
static void* vf_stash[6]; static const struct vf_typeinfo* vf_stash_ti[6]; static int vf_nstash;
void vf_lp_enter(void) { VF_CHECK(vf_nstash < 6, "model: landing pad nesting depth"); if (vf_nstash < 6) { vf_stash[vf_nstash] = vf_exc; vf_stash_ti[vf_nstash] = vf_exc_ti; vf_nstash++; } vf_exc = 0; }
const struct vf_typeinfo* vf_lp_ti(void) { return vf_nstash > 0 ? vf_stash_ti[vf_nstash - 1] : 0; }
void vf_lp_resume(void) { VF_CHECK(vf_exc == 0, "exception thrown out of cleanup code while another is in flight (std::terminate)"); if (vf_nstash > 0) { vf_nstash--; vf_exc = vf_stash[vf_nstash]; vf_exc_ti = vf_stash_ti[vf_nstash]; } }
int vf_bound_hit;
int vf_ti_is_a(const struct vf_typeinfo* t, const struct vf_typeinfo* target) { for (int i = 0; i < 6 && t; i++, t = t->base) if (t == target) return 1; return 0; }
void vf_unreachable(void) { VF_FAIL("UB: llvm unreachable executed"); }
void vf_trap(void) { VF_FAIL("trap/abort executed"); }
void vf_unsupported(const char* w) { VF_FAIL("translator: unsupported construct reached"); }
void vf_assume(uint32_t c) { VF_ASSUME(c); }
void vf_objcopy(uint8_t* dst, uint8_t* src, uint64_t n) { memcpy(dst, src, n); }
#ifdef VF_GEN
void vf_run_harness(void (*f)(void)) { f(); }
#endif
#ifdef VF_GEN   /* only the generated-C builds need the C++ ABI shims; the native-real build has the real ones */
uint8_t* vfx___cxa_allocate_exception(uint64_t n) { return malloc(n); }
void vfx___cxa_free_exception(uint8_t* p) { free(p); }
void vfx___cxa_throw(uint8_t* o, uint8_t* ti, uint8_t* d) { vf_exc = o; vf_exc_ti = (const struct vf_typeinfo*)ti; }
uint8_t* vfx___cxa_begin_catch(uint8_t* o) { VF_CHECK(vf_ncaught < 4, "model: catch nesting depth"); VF_CHECK(vf_nstash > 0, "model: begin_catch without a stashed exception"); if (vf_nstash > 0) vf_nstash--; vf_caught[vf_ncaught] = vf_stash[vf_nstash]; vf_caught_ti[vf_ncaught] = vf_stash_ti[vf_nstash]; vf_ncaught++; return o; }
void vfx___cxa_end_catch(void) { if (vf_ncaught > 0) vf_ncaught--; }
void vfx___cxa_rethrow(void) { vf_exc = vf_caught[vf_ncaught - 1]; vf_exc_ti = vf_caught_ti[vf_ncaught - 1]; }
void vfx__ZSt9terminatev(void) { VF_FAIL("std::terminate called"); }
void vfx___cxa_pure_virtual(void) { VF_FAIL("pure virtual called"); }
void vfx__Z13__OCHECK_FAILPKcS0_iS0_(uint8_t* expr, uint8_t* file, uint32_t line, uint8_t* func) { (void)expr; (void)file; (void)line; (void)func; VF_FAIL("OCHECK failed: oomd aborts"); }
uint32_t vfx___cxa_guard_acquire(uint64_t* g) { return *(uint8_t*)g == 0; }
void vfx___cxa_guard_release(uint64_t* g) { *(uint8_t*)g = 1; }
void vfx___cxa_guard_abort(uint64_t* g) {}
uint32_t vfx___cxa_atexit(void* a, void* b, void* c) { return 0; }
uint32_t vfx___gxx_personality_v0(void) { return 0; }
void vfx_abort(void) { VF_FAIL("abort() called"); }
void vfx___cxa_call_unexpected(uint8_t* p) { VF_FAIL("std::unexpected"); }
#ifdef __CPROVER__
uint8_t __dso_handle;
#endif
/* libc leaves used by vstl / oomd */
static uint32_t vf_errno_cell;
uint32_t* vfx___errno_location(void) { return &vf_errno_cell; }
uint64_t vfx_strlen(uint8_t* s) { uint64_t n = 0; while (s[n]) n++; return n; }
uint8_t* vfx_strerror_r(uint32_t e, uint8_t* buf, uint64_t n) { (void)e; if (n >= 2) { buf[0] = 'E'; buf[1] = 0; } return buf; }   /* GNU strerror_r: message text is not observed */
uint32_t vfx_strcmp(uint8_t* a, uint8_t* b) { uint64_t i = 0; while (a[i] && a[i] == b[i]) i++; return (uint32_t)((int)a[i] - (int)b[i]); }
uint32_t vfx_strncmp(uint8_t* a, uint8_t* b, uint64_t n) { for (uint64_t i = 0; i < n; i++) { if (a[i] != b[i]) return (uint32_t)((int)a[i] - (int)b[i]); if (!a[i]) return 0; } return 0; }
uint32_t vfx_memcmp(uint8_t* a, uint8_t* b, uint64_t n) { for (uint64_t i = 0; i < n; i++) if (a[i] != b[i]) return (uint32_t)((int)a[i] - (int)b[i]); return 0; }
uint32_t vfx_isspace(uint32_t c) { return c == ' ' || (c >= 9 && c <= 13); }
uint32_t vfx_isdigit(uint32_t c) { return c >= '0' && c <= '9'; }
uint32_t vfx_tolower(uint32_t c) { return (c >= 'A' && c <= 'Z') ? c + 32 : c; }
uint32_t vfx_toupper(uint32_t c) { return (c >= 'a' && c <= 'z') ? c - 32 : c; }
#endif

/* vstl-side fallbacks when ll2c did not see a literal */
void vf_fail(uint8_t* w) { VF_FAIL("UB / library precondition violated (vstl)"); }
void vf_bound(uint8_t* w) { vf_bound_hit = 1; VF_ASSUME(0); }

/* ------------------------------------------------------------------ nondeterminism */
int64_t vf_nd_k, vf_nd_v; double vf_nd_dv;   /* last (key,value): read from the CBMC trace for replay */
#ifdef __CPROVER__
int64_t nondet_int64(void); double nondet_double(void); float nondet_float(void);
uint64_t vf_nd(uint32_t key, uint64_t lo, uint64_t hi) {
  int64_t v = nondet_int64();
  __CPROVER_assume((int64_t)lo <= v && v <= (int64_t)hi);
  vf_nd_k = key; vf_nd_v = v;
  return (uint64_t)v;
}
double vf_nd_double(uint32_t key) { double v = nondet_double(); vf_nd_k = key; vf_nd_dv = v; return v; }
float vf_nd_float(uint32_t key) { float v = nondet_float(); vf_nd_k = key; vf_nd_dv = v; return v; }
#else
/* native: value for the n-th use of a key comes from the replay table if present, otherwise from a hash of
 * (seed, key, n), so that the generated-C build and the real build see identical choices whatever order they ask in. */
#define VF_ND_MAX 4096
static struct { int64_t key; int64_t val; double dval; int isd; int used; } vf_ndtab[VF_ND_MAX];
static int vf_ndn = -1; static uint64_t vf_seed;
static struct { int64_t key; int n; } vf_ndcnt[512]; static int vf_ndcntn;
static void vf_nd_load(void) {
  vf_ndn = 0;
  const char* s = getenv("VF_SEED"); vf_seed = s ? strtoull(s, 0, 10) : 1;
  const char* f = getenv("VF_ND_FILE");
  if (!f) return;
  FILE* fp = fopen(f, "r"); if (!fp) { fprintf(stderr, "cannot open %s\n", f); exit(2); }
  char kind; long long k; char buf[128];
  while (fscanf(fp, " %c %lld %127s", &kind, &k, buf) == 3 && vf_ndn < VF_ND_MAX) {
    vf_ndtab[vf_ndn].key = k; vf_ndtab[vf_ndn].isd = kind == 'd';
    if (kind == 'd') { if (!strcmp(buf, "nan")) vf_ndtab[vf_ndn].dval = NAN; else if (!strcmp(buf, "inf")) vf_ndtab[vf_ndn].dval = INFINITY; else if (!strcmp(buf, "-inf")) vf_ndtab[vf_ndn].dval = -INFINITY; else vf_ndtab[vf_ndn].dval = strtod(buf, 0); }
    else vf_ndtab[vf_ndn].val = strtoll(buf, 0, 10);
    vf_ndn++;
  }
  fclose(fp);
}
static int vf_nd_occ(int64_t key) { for (int i = 0; i < vf_ndcntn; i++) if (vf_ndcnt[i].key == key) return vf_ndcnt[i].n++; if (vf_ndcntn < 512) { vf_ndcnt[vf_ndcntn].key = key; vf_ndcnt[vf_ndcntn].n = 1; vf_ndcntn++; } return 0; }
static uint64_t vf_mix(uint64_t x) { x ^= x >> 33; x *= 0xff51afd7ed558ccdULL; x ^= x >> 33; x *= 0xc4ceb9fe1a85ec53ULL; x ^= x >> 33; return x; }
static int vf_nd_find(int64_t key, int isd) { for (int i = 0; i < vf_ndn; i++) if (!vf_ndtab[i].used && vf_ndtab[i].key == key && vf_ndtab[i].isd == isd) { vf_ndtab[i].used = 1; return i; } return -1; }
uint64_t vf_nd(uint32_t key, uint64_t lo, uint64_t hi) {
  if (vf_ndn < 0) vf_nd_load();
  int occ = vf_nd_occ(key), i = vf_nd_find(key, 0);
  int64_t v;
  if (i >= 0) v = vf_ndtab[i].val;
  else { uint64_t span = hi - lo + 1; uint64_t h = vf_mix(vf_seed * 0x9e3779b97f4a7c15ULL + vf_mix(((uint64_t)key << 20) + occ)); v = span ? (int64_t)(lo + h % span) : (int64_t)h;
    /* bias towards the ends and small values: boundary cases matter */
    if (span > 4) { unsigned sel = (h >> 40) % 8; if (sel == 0) v = (int64_t)lo; else if (sel == 1) v = (int64_t)hi; else if (sel == 2) v = (int64_t)(lo + (h >> 8) % 4); } }
  if (v < (int64_t)lo || v > (int64_t)hi) vf_native_assume_fail();
  return (uint64_t)v;
}
double vf_nd_double(uint32_t key) {
  if (vf_ndn < 0) vf_nd_load();
  int occ = vf_nd_occ(key), i = vf_nd_find(key, 1);
  if (i >= 0) return vf_ndtab[i].dval;
  uint64_t h = vf_mix(vf_seed * 0x9e3779b97f4a7c15ULL + vf_mix(((uint64_t)key << 20) + occ));
  switch (h % 8) { case 0: return 0.0; case 1: return (double)(h >> 50); case 2: return (double)(h >> 20) / 1024.0; default: return (double)((h >> 11) % 100000) / 100.0; }
}
float vf_nd_float(uint32_t key) { return (float)vf_nd_double(key); }
#endif

/* ------------------------------------------------------------------ events */
int64_t vf_seq;
#ifndef __CPROVER__
#define VF_NAT_MAXEV 4096
static struct { int kind; int64_t a, b, c, d; } vf_nat_evs[VF_NAT_MAXEV]; static int vf_nat_nev;
#endif
void vf_event(uint32_t kind, uint64_t a, uint64_t b, uint64_t c, uint64_t d) {
#ifndef __CPROVER__
  if (vf_nat_nev < VF_NAT_MAXEV) { vf_nat_evs[vf_nat_nev].kind = (int)kind; vf_nat_evs[vf_nat_nev].a = (int64_t)a; vf_nat_evs[vf_nat_nev].b = (int64_t)b; vf_nat_evs[vf_nat_nev].c = (int64_t)c; vf_nat_evs[vf_nat_nev].d = (int64_t)d; vf_nat_nev++; }
#endif
  vf_on_event((int)kind, (int64_t)a, (int64_t)b, (int64_t)c, (int64_t)d);
  vf_seq++;
}

/* uuid stub helper: "u<serial>" -> serial, anything else -> -1 */
uint32_t vf_uuid_serial_of(uint8_t* s) { if (!s || s[0] != 'u') return (uint32_t)-1; int v = 0, any = 0; for (int i = 1; i < 12 && s[i]; i++) { if (s[i] < '0' || s[i] > '9') return (uint32_t)-1; v = v * 10 + (s[i] - '0'); any = 1; } return any ? (uint32_t)v : (uint32_t)-1; }

/* ------------------------------------------------------------------ config table */
int64_t vf_cfg[VF_CFG_N][VF_CFG_M];
void vf_cfg_set(uint32_t which, uint32_t idx, uint64_t val) { VF_CHECK(which < VF_CFG_N && idx < VF_CFG_M, "model: config table bound"); if (which < VF_CFG_N && idx < VF_CFG_M) vf_cfg[which][idx] = (int64_t)val; }

uint64_t vf_cfg_get(uint32_t which, uint32_t idx) { return (which < VF_CFG_N && idx < VF_CFG_M) ? (uint64_t)vf_cfg[which][idx] : 0; }

/* ------------------------------------------------------------------ clock */
int64_t vf_clock_now = 1000000000LL;   /* > 0: the code uses time_point() (epoch) as a "never" sentinel */
uint64_t vf_clock_ns(void) { return (uint64_t)vf_clock_now; }
void vf_clock_advance(uint64_t d) { VF_ASSUME((int64_t)d >= 0 && (int64_t)d < (1LL << 50)); vf_clock_now += (int64_t)d; }

void vf_sleep_ns(uint64_t ns) { if ((int64_t)ns > 0) vf_clock_now += (int64_t)ns; }

/* ------------------------------------------------------------------ threading primitives, sequential model */
#ifdef VF_GEN
void vf_mutex_lock(uint32_t* m) { VF_CHECK(*m == 0, "deadlock: locking a mutex this thread already holds"); *m = 1; }
void vf_mutex_unlock(uint32_t* m) { VF_CHECK(*m == 1, "UB: unlocking a mutex that is not held"); *m = 0; }
void vf_cv_wait(uint8_t* cv, uint32_t* m) { VF_FAIL("model: condition_variable::wait would block forever in a sequential harness"); }
void vf_cv_notify(uint8_t* cv, uint32_t all) {}
void vf_thread_spawn(void (*fn)(uint8_t*), uint8_t* arg) { VF_FAIL("model: std::thread started in a sequential harness"); }
uint32_t vf_nondet_int(void) { return (uint32_t)vf_nd(9001, 0, 1); }
uint64_t vf_nondet_u64(void) { return vf_nd(9002, 0, INT64_MAX); }
#endif

/* ------------------------------------------------------------------ native reporting */
#ifndef __CPROVER__
void vf_dump_events(void) { for (int i = 0; i < vf_nat_nev; i++) printf("EV %d %lld %lld %lld %lld\n", vf_nat_evs[i].kind, (long long)vf_nat_evs[i].a, (long long)vf_nat_evs[i].b, (long long)vf_nat_evs[i].c, (long long)vf_nat_evs[i].d); }
static int vf_failed;
void vf_native_fail(const char* label, int fatal) {
  if (!strncmp(label, "REACH", 5) || !strncmp(label, "WITNESS", 7)) return;
  printf("ASSERT-FAIL: %s\n", label); vf_failed = 1;
  if (fatal) { vf_dump_events(); fflush(stdout); _Exit(3); }
}
void vf_check(uint32_t ok, uint8_t* label) { if (!ok) vf_native_fail((const char*)label, 0); }   /* real build: harness-side checks are ordinary calls */
void vf_native_assume_fail(void) { printf("ASSUME-FAIL\n"); fflush(stdout); _Exit(77); }
int vf_native_finish(void) { vf_dump_events(); if (vf_exc) printf("PENDING-EXCEPTION\n"); printf("DONE %s\n", vf_failed ? "FAIL" : "OK"); fflush(stdout); return vf_failed ? 3 : 0; }
#endif
