/* C models of the strto* family behind vstl's std::sto*: exact C/C++ contract for base 10.
 * err: 0 ok, 1 no conversion (invalid_argument), 2 out of range. *used = characters consumed. */
#include "vf_rt.h"
static int vf_ws(uint8_t c) { return c == ' ' || (c >= 9 && c <= 13); }
uint64_t vf_strtoull_core(uint8_t* s, uint64_t n, uint64_t* used, uint32_t* err, int* negp) {
  uint64_t i = 0; while (i < n && vf_ws(s[i])) i++;
  int neg = 0; if (i < n && (s[i] == '+' || s[i] == '-')) { neg = s[i] == '-'; i++; }
  uint64_t v = 0; int any = 0, ovf = 0;
  while (i < n && s[i] >= '0' && s[i] <= '9') {
    unsigned d = s[i] - '0';
    if (v > (UINT64_MAX - d) / 10) ovf = 1; else v = v * 10 + d;
    any = 1; i++;
  }
  *negp = neg;
  if (!any) { *err = 1; *used = 0; return 0; }
  *used = i; *err = ovf ? 2 : 0;
  return v;
}
uint64_t vf_strtoll(uint8_t* s, uint64_t n, uint64_t* used, uint32_t* err) {
  int neg; uint64_t v = vf_strtoull_core(s, n, used, err, &neg);
  if (*err) return 0;
  if (!neg) { if (v > (uint64_t)INT64_MAX) { *err = 2; return 0; } return v; }
  if (v > (uint64_t)INT64_MAX + 1) { *err = 2; return 0; }
  return (uint64_t)(0 - v);
}
uint64_t vf_strtoull(uint8_t* s, uint64_t n, uint64_t* used, uint32_t* err) {
  int neg; uint64_t v = vf_strtoull_core(s, n, used, err, &neg);
  if (*err) return 0;
  return neg ? (uint64_t)(0 - v) : v;   /* strtoull negates in unsigned arithmetic, no error */
}
static int vf_lc(uint8_t c) { return (c >= 'A' && c <= 'Z') ? c + 32 : c; }
static int vf_match(uint8_t* s, uint64_t n, uint64_t i, const char* w) { uint64_t k = 0; while (w[k]) { if (i + k >= n || vf_lc(s[i + k]) != w[k]) return 0; k++; } return 1; }
static const double vf_p10[23] = {1e0, 1e1, 1e2, 1e3, 1e4, 1e5, 1e6, 1e7, 1e8, 1e9, 1e10, 1e11, 1e12, 1e13, 1e14, 1e15, 1e16, 1e17, 1e18, 1e19, 1e20, 1e21, 1e22};
double vf_strtod(uint8_t* s, uint64_t n, uint64_t* used, uint32_t* err) {
  uint64_t i = 0; while (i < n && vf_ws(s[i])) i++;
  int neg = 0; if (i < n && (s[i] == '+' || s[i] == '-')) { neg = s[i] == '-'; i++; }
  *err = 0;
  if (vf_match(s, n, i, "inf")) { i += vf_match(s, n, i, "infinity") ? 8 : 3; *used = i; return neg ? -INFINITY : INFINITY; }
  if (vf_match(s, n, i, "nan")) { i += 3; if (i < n && s[i] == '(') vf_bound((uint8_t*)"nan(...)"); *used = i; return neg ? -NAN : NAN; }
  if (i + 1 < n && s[i] == '0' && vf_lc(s[i + 1]) == 'x') vf_bound((uint8_t*)"hex float");
  uint64_t m = 0; int any = 0; int e10 = 0; int big = 0;
  while (i < n && s[i] >= '0' && s[i] <= '9') { if (m < (1ULL << 53) / 10 - 1) m = m * 10 + (s[i] - '0'); else { if (s[i] != '0' || m) big = 1; e10++; } any = 1; i++; }
  if (i < n && s[i] == '.') {
    uint64_t j = i + 1; int anyf = 0;
    while (j < n && s[j] >= '0' && s[j] <= '9') { if (m < (1ULL << 53) / 10 - 1) { m = m * 10 + (s[j] - '0'); e10--; } else if (s[j] != '0') big = 1; anyf = 1; j++; }
    if (any || anyf) { i = j; any = 1; }
  }
  if (!any) { *err = 1; *used = 0; return 0; }
  if (i < n && vf_lc(s[i]) == 'e') {
    uint64_t j = i + 1; int eneg = 0; if (j < n && (s[j] == '+' || s[j] == '-')) { eneg = s[j] == '-'; j++; }
    if (j < n && s[j] >= '0' && s[j] <= '9') { int ev = 0; while (j < n && s[j] >= '0' && s[j] <= '9') { if (ev < 100000) ev = ev * 10 + (s[j] - '0'); j++; } e10 += eneg ? -ev : ev; i = j; }
  }
  *used = i;
  if (m == 0) return neg ? -0.0 : 0.0;
  if (big) vf_bound((uint8_t*)"strtod: more than 15 significant digits (outside the exact model)");
  double r;
  if (e10 == 0) r = (double)m;
  else if (e10 > 0 && e10 <= 22) { r = (double)m * vf_p10[e10]; if (m > (1ULL << 53)) vf_bound((uint8_t*)"strtod mantissa"); /* exact only if product is exact: m*10^e < 2^53 or single rounding */ }
  else if (e10 > 22 && e10 <= 37) { uint64_t mm = m; int k = e10 - 22; int ok = 1; while (k-- > 0) { if (mm > (1ULL << 53) / 10) { ok = 0; break; } mm *= 10; } if (!ok) vf_bound((uint8_t*)"strtod: outside Clinger fast path"); r = (double)mm * 1e22; }
  else if (e10 < 0 && e10 >= -22) r = (double)m / vf_p10[-e10];
  else if (e10 > 308 + 1) { *err = 2; return neg ? -HUGE_VAL : HUGE_VAL; }   /* m >= 1 => overflow for sure */
  else if (e10 < -345) { *err = 2; return 0; }                                /* m < 2^53 < 1e16 => underflow to 0 for sure */
  else { vf_bound((uint8_t*)"strtod: exponent outside the exact fast path"); r = 0; }
  return neg ? -r : r;
}
