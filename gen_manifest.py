#!/usr/bin/env python3
"""Writes MANIFEST.json from the registry (claimed properties) and the not-applicable list."""
import json, os, sys
V = os.path.dirname(os.path.abspath(__file__))
sys.path.insert(0, V)
import harnesses, claims
checks = []
claimed = sorted(p for p in claims.CLAIMED if any(p in h['props'] for h in harnesses.H.values()))
for p in claimed:
    c = claims.CLAIMS[p]
    checks.append({
        'property_id': p,
        'quick_cmd': './check %s --tier quick' % p,
        'thorough_cmd': './check %s --tier thorough' % p,
        'evidence_file': 'evidence/%s.json' % p,
        'replay_cmd_template': './check %s --replay <harness.variant>:{path}' % p,
        'engine': 'll2c+cbmc',
        'level_claimed': {'category': 'model_checking', 'text': c['text'], 'design_ref': c.get('design_ref', 'DESIGN.md section 2')},
        'level_note': c['note'],
        'technique': c.get('technique', 'bounded symbolic execution of the real C++ (clang IR -> C -> CBMC), SAT verdict over all inputs within stated bounds, counterexamples replayed on the g++ build'),
    })
na = [{'property_id': p, 'reason': r} for p, r in sorted(claims.NOT_APPLICABLE.items()) if p not in claimed]
m = {
    'version': 1,
    'setup_cmd': './setup.sh',
    'hooks': {'guard': 'OOMD_VERIF', 'enable': 'none needed: checks compile the unmodified /repo sources (shadow header dir + -D on the verification compile only)', 'baseline_off_cmd': 'ninja -C /repo/_build && meson test -C /repo/_build', 'source_commits': [], 'add_only': True},
    'engines': [{'name': 'll2c+cbmc', 'path': 'vfcheck.py', 'serves_properties': claimed, 'kind_free_text': 'real oomd C++ compiled by clang-14 against a bounded std-library model (vstl) to LLVM IR, translated to C by ll2c, decided by CBMC 6.11 (SAT); counterexamples replayed on a g++/libstdc++ ASan+UBSan build of the same sources'}],
    'checks': checks,
    'not_applicable': na,
    'notes': 'Every check rebuilds from /repo working tree. exit 2 = machinery broken (never reported as held).',
}
json.dump(m, open(os.path.join(V, 'MANIFEST.json'), 'w'), indent=1)
print('claimed', claimed, 'not applicable', [x['property_id'] for x in na])
