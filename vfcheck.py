#!/usr/bin/env python3
"""Driver: real oomd C++ -> LLVM IR -> C (ll2c) -> CBMC; witness/reach check; replay on the real build; evidence.

exit 0: property held on everything explored (known findings are printed as KNOWN-FINDING lines)
exit 1: at least one violation confirmed by replay on the real g++/libstdc++ build (VIOLATION line printed)
exit 2: the machinery itself is broken (build failure, missing body, vacuous harness, encoding mismatch, timeout)
"""
import sys, os, json, subprocess, hashlib, time, shutil, re, argparse, concurrent.futures as cf, resource, random

V = os.path.dirname(os.path.abspath(__file__))
REPO = os.environ.get('VF_REPO', '/repo')
SRC = os.path.join(REPO, 'src')
# VF_TAG: scratch mode for trying a modified source tree (VF_REPO) without touching build/, evidence/, replays/ of the real run
TAG = os.environ.get('VF_TAG')
BUILD = os.path.join(V, 'build', 'tag-' + TAG) if TAG else os.path.join(V, 'build')
OUT = BUILD if TAG else V
LL2C = os.path.join(V, 'll2c', 'll2c')
sys.path.insert(0, V)
import harnesses  # noqa: E402

CLANG_BASE = ['clang++-14', '-std=c++20', os.environ.get('VF_OPT', '-O1'), '-fno-vectorize', '-fno-slp-vectorize', '-fno-unroll-loops', '-fno-strict-aliasing',
              '-fno-builtin', '-fno-pic', '-nostdinc++', '-isystem', os.path.join(V, 'vstl'), '-I', os.path.join(V, 'rt'), '-I', os.path.join(V, 'shadow'),
              '-I', os.path.join(V, 'harness', 'common'), '-I', os.path.join(V, 'env'), '-I', SRC, '-DMESON_BUILD', '-D_FILE_OFFSET_BITS=64',
              '-DVF_MODEL=1', '-D__NO_INLINE__', '-Wno-everything', '-c', '-emit-llvm']
CBMC_FLAGS = ['--verbosity', '8', '--unwinding-assertions', '--signed-overflow-check', '--undefined-shift-check', '--drop-unused-functions',
              '--no-malloc-may-fail', '--json-ui', '--no-standard-checks', '--pointer-check', '--bounds-check', '--div-by-zero-check',
              '--pointer-primitive-check']
REAL_FLAGS = ['-std=c++20', '-O1', '-g', '-fno-omit-frame-pointer', '-fsanitize=address,undefined', '-fno-sanitize-recover=undefined',
              '-D_GLIBCXX_ASSERTIONS', '-DMESON_BUILD', '-D_FILE_OFFSET_BITS=64', '-w']


class Broken(Exception):
    pass


def sh(cmd, cwd=None, timeout=None, env=None, mem_gb=None, inp=None):
    def lim():
        if mem_gb:
            b = int(mem_gb * (1 << 30))
            resource.setrlimit(resource.RLIMIT_AS, (b, b))
    t0 = time.time()
    try:
        p = subprocess.run(cmd, cwd=cwd, timeout=timeout, env=env, stdout=subprocess.PIPE, stderr=subprocess.PIPE, preexec_fn=lim if mem_gb else None, input=inp)
        return p.returncode, p.stdout.decode('utf-8', 'replace'), p.stderr.decode('utf-8', 'replace'), time.time() - t0
    except subprocess.TimeoutExpired as e:
        return -9, (e.stdout or b'').decode('utf-8', 'replace'), 'TIMEOUT', time.time() - t0


SOLVER_FLAGS = {'minisat': [], 'kissat': ['--external-sat-solver', 'kissat'], 'cadical': ['--sat-solver', 'cadical']}


def race(cmd, solvers, timeout, mem_gb):
    """Run the same CBMC query with several SAT back ends in parallel; the first one to deliver a verdict wins."""
    def lim():
        b = int(mem_gb * (1 << 30))
        resource.setrlimit(resource.RLIMIT_AS, (b, b))
    t0 = time.time()
    procs = []
    import tempfile
    for sv in solvers:
        fo = tempfile.TemporaryFile()
        p = subprocess.Popen(cmd + SOLVER_FLAGS[sv], stdout=fo, stderr=subprocess.DEVNULL, preexec_fn=lim, start_new_session=True)
        procs.append((sv, p, fo))
    winner, res = None, None
    last = None
    while time.time() - t0 < timeout and procs:
        for sv, p, fo in list(procs):
            if p.poll() is not None:
                fo.seek(0)
                out = fo.read().decode('utf-8', 'replace')
                procs.remove((sv, p, fo))
                last = (p.returncode, out, '', time.time() - t0, sv)
                if '"result"' in out or not procs:
                    winner = last
                    break
        if winner:
            break
        time.sleep(0.5)
    for sv, p, fo in procs:
        try:
            os.killpg(p.pid, 15)
        except Exception:
            pass
    if winner:
        return winner
    if last:
        return last
    return (-9, '', 'TIMEOUT', time.time() - t0, None)


def fhash(paths):
    h = hashlib.sha256()
    for p in paths:
        with open(p, 'rb') as f:
            h.update(f.read())
    return h.hexdigest()[:16]


def drop_inc(flags, path):
    out, i = [], 0
    while i < len(flags):
        if flags[i] == '-I' and i + 1 < len(flags) and flags[i + 1] == path:
            i += 2
            continue
        out.append(flags[i])
        i += 1
    return out


def defs_flags(defs):
    return ['-D%s=%s' % (k, v) if v is not None else '-D%s' % k for k, v in sorted(defs.items())]


class Job:
    """one harness variant"""

    def __init__(self, hname, h, vname, var, tier):
        self.hname, self.h, self.vname, self.var, self.tier = hname, h, vname, var, tier
        self.id = '%s.%s' % (hname, vname)
        self.dir = os.path.join(BUILD, self.id)   # re-pointed to build/<property>/<id> once the property is known
        self.hdir = os.path.join(V, h['dir'])
        self.defs = dict(h.get('defs', {}))
        self.defs.update(var.get('defs', {}))
        self.unwind = var.get('unwind', h.get('unwind', 8))
        self.timeout = var.get('timeout', h.get('timeout', 600))
        self.mem = var.get('mem_gb', h.get('mem_gb', 14))
        self.prop = None
        self.res = {'id': self.id, 'harness': hname, 'variant': vname, 'defs': self.defs, 'unwind': self.unwind}

    def oomd_srcs(self):
        out = []
        for s in self.h.get('oomd', []):
            fl = []
            if isinstance(s, (tuple, list)):
                s, fl = s[0], list(s[1])
            out.append((os.path.join(SRC, 'oomd', s), fl))
        return out

    def cxx_srcs(self, real=False):
        lst = list(self.h.get('cxx', [])) + ([] if real else list(self.h.get('cxx_model', [])))
        return [(os.path.join(V, s) if '/' in s else os.path.join(self.hdir, s), []) for s in lst]

    def c_srcs(self):
        return [os.path.join(V, s) if '/' in s else os.path.join(self.hdir, s) for s in self.h.get('c', [])]

    # ---------------------------------------------------------------- IR -> C
    def build_gen(self):
        os.makedirs(self.dir, exist_ok=True)
        bcs = []
        flags = CLANG_BASE + defs_flags(self.defs) + self.h.get('clang_flags', [])
        if self.h.get('no_shadow'):
            flags = drop_inc(flags, os.path.join(V, 'shadow'))   # use the real oomd/Log.h etc.
        procs = []
        for s, fl in self.oomd_srcs() + self.cxx_srcs():
            if not os.path.exists(s):
                raise Broken('missing source %s' % s)
            o = os.path.join(self.dir, os.path.basename(s) + '.bc')
            bcs.append(o)
            procs.append((s, subprocess.Popen(flags + fl + [s, '-o', o], stdout=subprocess.PIPE, stderr=subprocess.PIPE)))
        for s, p in procs:
            out, err = p.communicate()
            if p.returncode != 0:
                raise Broken('clang failed on %s:\n%s' % (s, err.decode()[-3000:]))
        # function overrides (logging-only or otherwise cut functions, each listed in the evidence): definitions in these files
        # replace the same-named definitions of the oomd sources
        ovs = []
        for s in self.h.get('override_cxx', []):
            s = os.path.join(V, s)
            o = os.path.join(self.dir, os.path.basename(s) + '.ov.bc')
            rc, out, e, _ = sh(flags + [s, '-o', o])
            if rc:
                raise Broken('clang failed on %s:\n%s' % (s, e[-3000:]))
            ovs.append('--override=' + o)
        linked = os.path.join(self.dir, 'all.bc')
        rc, o, e, _ = sh(['llvm-link-14'] + bcs + ovs + ['-o', linked])
        if rc:
            raise Broken('llvm-link: ' + e[-2000:])
        keep = ','.join(['harness'] + self.h.get('keep', []))
        opt = os.path.join(self.dir, 'all.opt.ll')
        rc, o, e, _ = sh(['opt-14', '-S', '-passes=internalize,globaldce', '-internalize-public-api-list=' + keep, linked, '-o', opt])
        if rc:
            raise Broken('opt: ' + e[-2000:])
        gen = os.path.join(self.dir, 'gen.c')
        rc, o, e, _ = sh([LL2C, opt, gen])
        if rc:
            raise Broken('ll2c: ' + e[-2000:])
        bad = [l for l in e.splitlines() if l.startswith('unsupported') or l.startswith('unnamed') or l.startswith('gep into')]
        if bad:
            raise Broken('ll2c unsupported constructs: ' + '; '.join(bad[:5]))
        self.externs = [l.split()[2] for l in e.splitlines() if l.startswith('EXTERN FUNC')]
        self.res['ir_functions'] = self.ir_functions(opt)
        self.gen = gen
        return gen

    def ir_functions(self, ll):
        names = []
        for l in open(ll):
            if l.startswith('define '):
                m = re.search(r'@("?)([^"(]+)\1\(', l)
                if m:
                    names.append(m.group(2))
        want = self.h.get('functions', [])
        rc, o, e, _ = sh(['c++filt'], inp='\n'.join(names).encode())
        dem = o.splitlines() if rc == 0 else names
        hit = sorted({d.split('(')[0] for d in dem if any(w in d for w in want)}) if want else []
        return {'n_defined': len(names), 'encoded': hit[:60]}

    # ---------------------------------------------------------------- CBMC
    def cbmc_cmd(self, extra_defs=(), raw=False):
        cmd = ['cbmc', self.gen] + self.c_srcs() + [os.path.join(V, 'rt', 'vf_rt.c'), os.path.join(V, 'rt', 'vf_num.c')]
        cmd += ['-I', os.path.join(V, 'rt'), '-I', self.hdir, '-I', os.path.join(V, 'harness', 'common'), '-DVF_GEN'] + defs_flags(self.defs) + list(extra_defs)
        cmd += ['--unwind', str(self.unwind), '--object-bits', str(self.h.get('object_bits', 12))] + CBMC_FLAGS + self.h.get('cbmc_flags', []) + self.var.get('cbmc_flags', [])
        named = [] if raw else self.loop_bound_unwindset()
        fixed = {u.rsplit(':', 1)[0] for u in named}
        for u in self.h.get('unwindset', []) + self.var.get('unwindset', []) + sorted(x for x in getattr(self, 'auto_unwindset', set()) if x.rsplit(':', 1)[0] not in fixed) + named:
            cmd += ['--unwindset', u]
        return cmd

    def loop_bound_unwindset(self):
        """Per-loop bounds named by content (harness key loop_bounds = [(function substring, callee substring, bound)]): the
        innermost loop of a function matching the first string whose body calls a function matching the second gets
        --unwindset <id>:<bound>. Loop identifiers are taken from cbmc --show-loops on the generated C of this very build, so
        they follow the code. The bound is enforced by its unwinding assertion like every other one."""
        lbs = self.var.get('loop_bounds', self.h.get('loop_bounds', []))
        if not lbs:
            return []
        if getattr(self, '_lb_cache', None) is not None:
            return self._lb_cache
        cmd = [c for c in self.cbmc_cmd(raw=True) if c != '--json-ui'] + ['--show-loops']
        rc, out, err, _ = sh(cmd, timeout=600)
        src = open(self.gen).read().splitlines()
        loops = re.findall(r'Loop (\S+):\n\s+file (\S+) line (\d+) function (\S+)', out)
        res = []
        for fsub, csub, bound in lbs:
            best = None
            for lid, f, line, fn in loops:
                if fsub not in fn or not f.endswith('gen.c'):
                    continue
                line = int(line)
                m = re.search(r'goto (bb\d+);\s*}?\s*$', src[line - 1])
                if not m:
                    continue
                # header label: nearest preceding "bbK: ;" line
                head = None
                for k in range(line - 1, 0, -1):
                    if src[k - 1].startswith(m.group(1) + ': ;'):
                        head = k
                        break
                    if src[k - 1].startswith('}'):
                        break
                if head is None:
                    continue
                body = '\n'.join(src[head - 1:line])
                if re.search(r'= \S*' + re.escape(csub) + r'\S*\(', body) or re.search(r'^\s*\S*' + re.escape(csub) + r'\S*\(', body, re.M):
                    if best is None or (line - head) < best[1]:
                        best = (lid, line - head)
            if best is None:
                raise Broken('loop_bounds: no loop of %s calling %s found' % (fsub, csub))
            res.append('%s:%d' % (best[0], bound))
        self._lb_cache = res
        self.res['content_named_loop_bounds'] = res
        return res

    def run_cbmc(self, trace_props=None):
        cmd = self.cbmc_cmd()
        if trace_props:
            cmd += ['--trace']
            for pid in trace_props:
                cmd += ['--property', pid]
        else:
            self.res['cbmc_cmd'] = ' '.join(c.replace(V + '/', '') for c in cmd)
        solvers = self.var.get('solvers', self.h.get('solvers', ['minisat']))
        rc, out, err, dt, winner = race(cmd, solvers, self.timeout, self.mem)
        if not trace_props:
            self.res['sat_backend'] = winner
        self.res['cbmc_wall_s'] = round(self.res.get('cbmc_wall_s', 0) + dt, 2)
        if os.environ.get('VF_KEEP_JSON'):   # (hundreds of MB per variant: kept only for debugging)
            with open(os.path.join(self.dir, 'cbmc-trace.json' if trace_props else 'cbmc.json'), 'w') as f:
                f.write(out)
        if err == 'TIMEOUT':
            raise Broken('cbmc timeout after %ss (no verdict; not counted as held)' % self.timeout)
        try:
            msgs = json.loads(out)
        except Exception:
            raise Broken('cbmc output not JSON (rc=%s): %s %s' % (rc, out[-1500:], err[-1500:]))
        results, texts = None, []
        for m in msgs:
            if isinstance(m, dict):
                if 'result' in m:
                    results = m['result']
                if 'messageText' in m:
                    texts.append(m['messageText'])
        alltext = '\n'.join(texts)
        nobody = sorted(set(re.findall(r'no body for function ([^\s]+)', alltext)))
        nobody = [n for n in nobody if not n.startswith('nondet_') and not n.startswith('__CPROVER')]
        if nobody:
            raise Broken('functions without body (would be silently nondet): ' + ', '.join(nobody[:20]))
        if results is None:
            raise Broken('cbmc produced no result (rc=%s): %s' % (rc, alltext[-3000:]))
        if trace_props:
            return results
        m = re.search(r'(\d+) variables, (\d+) clauses', alltext)
        if m:
            self.res['sat_vars'], self.res['sat_clauses'] = int(m.group(1)), int(m.group(2))
        m = re.search(r'Generated (\d+) VCC\(s\), (\d+) remaining', alltext)
        if m:
            self.res['vccs'], self.res['vccs_remaining'] = int(m.group(1)), int(m.group(2))
        ts = re.findall(r'Runtime decision procedure: ([0-9.]+)s', alltext)   # (one per solver query; includes the SAT solver time)
        self.res['solver_s'] = round(sum(float(x) for x in ts), 2)
        self.res['solver_queries'] = len(ts)
        return results

    # ---------------------------------------------------------------- native builds
    def build_native_gen(self):
        exe = os.path.join(self.dir, 'native_gen')
        cmd = ['gcc', '-O1', '-w', '-fwrapv', '-fno-strict-aliasing', '-DVF_GEN', '-DVF_NATIVE', '-I', os.path.join(V, 'rt'), '-I', self.hdir, '-I', os.path.join(V, 'harness', 'common')] + defs_flags(self.defs)
        cmd += [self.gen] + self.c_srcs() + [os.path.join(V, 'rt', 'vf_rt.c'), os.path.join(V, 'rt', 'vf_num.c'), '-lm', '-o', exe]
        rc, o, e, _ = sh(cmd)
        if rc:
            raise Broken('native build of generated C failed: ' + e[-3000:])
        return exe

    def build_native_real(self):
        exe = os.path.join(self.dir, 'native_real')
        inc = ['-I', os.path.join(V, 'rt'), '-I', os.path.join(V, 'shadow'), '-I', os.path.join(V, 'harness', 'common'), '-I', os.path.join(V, 'env'), '-I', SRC, '-I', self.hdir] + self.h.get('real_inc', [])
        if self.h.get('no_shadow'):
            inc = drop_inc(inc, os.path.join(V, 'shadow'))
        objs, procs = [], []
        odir = os.path.join(BUILD, 'realobj')
        os.makedirs(odir, exist_ok=True)
        dfl = defs_flags(self.defs)
        for s, fl in self.oomd_srcs() + self.cxx_srcs(real=True) + [(os.path.join(V, 'rt', 'vf_real.cpp'), [])]:
            key = hashlib.sha256((s + ' '.join(dfl + fl) + ' '.join(REAL_FLAGS) + ' '.join(self.h.get('override_symbols', []))).encode() + self.dephash(s)).hexdigest()[:20]
            o = os.path.join(odir, os.path.basename(s) + '.' + key + '.o')
            objs.append(o)
            if not os.path.exists(o):
                procs.append((s, o, subprocess.Popen(['g++'] + REAL_FLAGS + inc + dfl + fl + ['-c', s, '-o', o + '.tmp'], stdout=subprocess.PIPE, stderr=subprocess.PIPE)))
        for s, o, p in procs:
            out, err = p.communicate()
            if p.returncode != 0:
                raise Broken('g++ (real build) failed on %s:\n%s' % (s, err.decode()[-3000:]))
            if self.h.get('override_symbols'):   # the overridden definitions become weak so that the override file's definitions win
                sh(['objcopy'] + sum([['-W', sy] for sy in self.h['override_symbols']], []) + [o + '.tmp'])
            os.replace(o + '.tmp', o)
        for s in self.h.get('override_cxx', []):
            s = os.path.join(V, s)
            o = os.path.join(self.dir, os.path.basename(s) + '.ov.o')
            rc, out, e, _ = sh(['g++'] + REAL_FLAGS + inc + dfl + ['-c', s, '-o', o])
            if rc:
                raise Broken('g++ (real build) failed on %s:\n%s' % (s, e[-3000:]))
            objs.append(o)
        cobjs = []
        for s in self.c_srcs() + [os.path.join(V, 'rt', 'vf_rt.c'), os.path.join(V, 'rt', 'vf_num.c')]:
            o = os.path.join(self.dir, os.path.basename(s) + '.real.o')
            rc, out, e, _ = sh(['gcc', '-O1', '-g', '-w', '-DVF_NATIVE', '-DVF_REAL', '-fsanitize=address,undefined'] + inc + dfl + ['-c', s, '-o', o])
            if rc:
                raise Broken('gcc (real build) failed on %s: %s' % (s, e[-2000:]))
            cobjs.append(o)
        link = ['g++', '-fsanitize=address,undefined', '-Wl,--no-demangle'] + objs + cobjs
        rc, o, e, _ = sh(link + self.h.get('real_libs', []) + ['-lm', '-lpthread', '-o', exe])
        if rc:
            # functions the IR build dropped as unreachable (globaldce) are still referenced by the object files: give them
            # aborting bodies so that reaching one is loud, and relink
            syms = sorted(set(re.findall(r"undefined reference to `([A-Za-z0-9_.$]+)'", e)))
            if not syms:
                raise Broken('link (real build) failed: ' + e[-3000:])
            stub = os.path.join(self.dir, 'unresolved_stubs.s')
            with open(stub, 'w') as f:
                f.write('.text\n')
                for k, sy in enumerate(syms):
                    f.write('.globl %s\n.type %s,@function\n%s:\n  leaq .Lname%d(%%rip), %%rdi\n  call vf_unresolved_stub\n' % (sy, sy, sy, k))
                f.write('.section .rodata\n')
                for k, sy in enumerate(syms):
                    f.write('.Lname%d: .string "%s"\n' % (k, sy))
                f.write('.section .note.GNU-stack,"",@progbits\n')
            rc, o, e, _ = sh(link + [stub] + self.h.get('real_libs', []) + ['-lm', '-lpthread', '-o', exe])
            if rc:
                raise Broken('link (real build) failed: ' + e[-3000:])
        return exe

    _dephash_cache = {}

    def dephash(self, s):
        # hash of the file and of every repo / verif header (cheap over-approximation of its dependencies)
        k = 'hdrs'
        if k not in Job._dephash_cache:
            h = hashlib.sha256()
            for root in (os.path.join(SRC, 'oomd'), os.path.join(V, 'harness'), os.path.join(V, 'shadow'), os.path.join(V, 'rt'), os.path.join(V, 'env')):
                for dp, dn, fn in sorted(os.walk(root)):
                    for f in sorted(fn):
                        if f.endswith(('.h', '.hpp', '.inc')):
                            h.update(open(os.path.join(dp, f), 'rb').read())
            Job._dephash_cache[k] = h.digest()
        return Job._dephash_cache[k] + open(s, 'rb').read()

    def run_native(self, exe, seed=None, ndfile=None):
        env = dict(os.environ)
        env['ASAN_OPTIONS'] = 'detect_leaks=0:abort_on_error=0:exitcode=66'
        env['UBSAN_OPTIONS'] = 'halt_on_error=1:exitcode=66:print_stacktrace=1'
        if seed is not None:
            env['VF_SEED'] = str(seed)
        if ndfile:
            env['VF_ND_FILE'] = ndfile
        rc, out, err, _ = sh([exe], env=env, timeout=60)
        return rc, out, err


# -------------------------------------------------------------------- trace handling
def _ival(v):
    m = re.match(r'\s*(-?\d+)', str(v.get('data', '0')))
    return int(m.group(1)) if m else 0


def nd_from_trace(trace):
    """(key, value) choices in call order from a CBMC json trace."""
    nd, k = [], None
    for st in trace:
        if st.get('stepType') != 'assignment':
            continue
        lhs = st.get('lhs')
        if lhs == 'vf_nd_k':
            k = _ival(st['value'])
        elif lhs == 'vf_nd_v' and k is not None:
            nd.append(('i', k, str(_ival(st['value']))))
            k = None
        elif lhs == 'vf_nd_dv' and k is not None:
            d = st['value'].get('data', '0')
            d = d.replace('f', '').replace('+', '')
            dl = d.lower()
            if 'nan' in dl:
                d = 'nan'
            elif 'inf' in dl:
                d = '-inf' if dl.startswith('-') else 'inf'
            nd.append(('d', k, d))
            k = None
    return nd


def write_nd(nd, path):
    with open(path, 'w') as f:
        for kind, k, v in nd:
            f.write('%s %d %s\n' % (kind, k, v))


def label_applies(desc, prop):
    """Assertion labels of the form 'C05: ...' or 'C02/C05/C06: ...' belong to those properties only; unlabelled
    assertions (UB, pointer checks, escaping exceptions) belong to every property of the harness."""
    m = re.match(r'^((?:C\d\d)(?:/C\d\d)*):', desc)
    if not m or prop == 'ALL':
        return True
    return prop in m.group(1).split('/')


def is_expected_fail(desc):
    return desc.startswith('REACH') or desc.startswith('WITNESS')


def run_job(job, ndiff):
    r = job.res
    t0 = time.time()
    try:
        job.build_gen()
        results = job.run_cbmc()
        # Unwind refinement: the default bound is small; loops that provably need more (failed unwinding assertion) get the
        # big bound (string capacity + 1) through --unwindset and the query is repeated. The discovered set is cached in
        # harness/unwindsets/ (committed) so that later runs start from it. Soundness is unaffected: a run only counts when
        # every unwinding assertion passes.
        big = job.var.get('unwind_big', job.h.get('unwind_big'))
        if big:
            cache = os.path.join(V, 'harness', 'unwindsets', job.id + '.txt')
            job.auto_unwindset = set(open(cache).read().split()) if os.path.exists(cache) else set()
            if job.auto_unwindset:
                results = job.run_cbmc()
            for _round in range(20):
                uf = [p for p in results if p['status'] == 'FAILURE' and 'unwinding assertion' in p.get('description', '')]
                if not uf:
                    break
                new = set()
                for p in uf:
                    m = re.match(r'^(.*)\.unwind\.(\d+)$', p.get('property', ''))
                    if m:
                        # every loop of a function that hit the bound gets the big bound (identifiers of loops that do not
                        # exist are ignored by cbmc): one round per function instead of one per loop
                        for k in range(max(12, int(m.group(2)) + 1)):
                            new.add('%s.%d:%d' % (m.group(1), k, big))
                if not new or new <= job.auto_unwindset:
                    break
                sys.stderr.write('[%s] unwind refinement round %d: +%s\n' % (job.id, _round, ' '.join(sorted(set(x.rsplit('.', 1)[0] for x in new - job.auto_unwindset))))); sys.stderr.flush()
                job.auto_unwindset |= new
                try:   # saved every round: an interrupted or timed-out refinement resumes from here
                    if TAG:
                        raise Exception('scratch mode')
                    os.makedirs(os.path.dirname(cache), exist_ok=True)
                    open(cache, 'w').write('\n'.join(sorted(job.auto_unwindset)) + '\n')
                except Exception:
                    pass
                results = job.run_cbmc()
            r['unwind_refined_loops'] = sorted(job.auto_unwindset)
            if job.auto_unwindset and not TAG:
                try:
                    os.makedirs(os.path.dirname(cache), exist_ok=True)
                    open(cache, 'w').write('\n'.join(sorted(job.auto_unwindset)) + '\n')
                except Exception:
                    pass
        props = {}
        for p in results:
            d = p.get('description', '')
            props.setdefault(d, []).append(p)
        r['n_properties'] = len(results)
        fails = [p for p in results if p['status'] == 'FAILURE']
        unknown = [p for p in results if p['status'] not in ('SUCCESS', 'FAILURE')]
        if unknown:
            raise Broken('cbmc status %s for %s' % (unknown[0]['status'], unknown[0].get('description')))
        unwind_fail = [p for p in fails if 'unwinding assertion' in p.get('description', '')]
        if unwind_fail:
            loc = unwind_fail[0].get('sourceLocation', {})
            raise Broken('unwinding assertion failed (bound %d too small) at %s:%s %s' % (job.unwind, loc.get('function'), loc.get('line'), unwind_fail[0].get('property')))
        # vacuity: every REACH/WITNESS obligation must be violated
        exp = [p for p in results if is_expected_fail(p.get('description', ''))]
        if not exp:
            raise Broken('harness has no WITNESS obligation')
        notreached = sorted({p['description'] for p in exp if p['status'] != 'FAILURE'} - {p['description'] for p in exp if p['status'] == 'FAILURE'})
        r['reach_missing'] = notreached
        if notreached and (not job.var.get('reach_optional') or any(x.startswith('WITNESS') for x in notreached)):
            raise Broken('vacuous: not reachable: ' + '; '.join(notreached))
        r['reach_ok'] = sorted({p['description'] for p in exp if p['status'] == 'FAILURE'})
        model_fail = [p for p in fails if p.get('description', '').startswith('model:') or p.get('description', '').startswith('translator:')]
        if model_fail:
            raise Broken('model bound assertion failed: ' + model_fail[0]['description'])
        real_fails = [p for p in fails if not is_expected_fail(p.get('description', '')) and label_applies(p.get('description', ''), job.prop)]
        r['other_property_failures'] = sorted({p['description'] for p in fails if not is_expected_fail(p.get('description', '')) and not label_applies(p.get('description', ''), job.prop)})
        r['n_failed'] = len(real_fails)
        # second run with traces: one per distinct failing description, plus the end-of-oracle witness as a sample
        want = {}
        for p in real_fails:
            want.setdefault(p['description'], p['property'])
        wit = next((p for p in exp if p['description'].startswith('WITNESS')), exp[0])
        tr_ids = list(want.values()) + ([wit['property']] if (job.var.get('sample_trace', job.tier == 'thorough') or real_fails) else [])
        if tr_ids:
            tres = job.run_cbmc(trace_props=tr_ids)
            bypid = {p['property']: p for p in tres}
            for p in results:
                if p['property'] in bypid and bypid[p['property']].get('trace'):
                    p['trace'] = bypid[p['property']]['trace']
        wt = next((p for p in exp if p['status'] == 'FAILURE' and p.get('trace')), None)
        if wt:
            r['witness_sample'] = [[k, v] for _, k, v in nd_from_trace(wt['trace'])][:40]
        # native builds: differential validation + replay
        r['diff_runs'] = 0
        r['replays'] = []
        need_native = ndiff > 0 or real_fails
        if need_native:
            ng = job.build_native_gen()
            nr = job.build_native_real()
            base = int(os.environ.get('VERIF_SEED', '1')) * 1000
            ok = 0
            for sd in range(base, base + ndiff):
                rc1, o1, e1 = job.run_native(ng, seed=sd)
                rc2, o2, e2 = job.run_native(nr, seed=sd)
                if rc1 == 77:   # the generated-C run left the model's domain (a stated model bound / harness assumption): nothing to compare
                    continue
                if True:
                    if norm_out(o1, job.h.get('diff_unordered')) != norm_out(o2, job.h.get('diff_unordered')) or (rc1 != rc2 and not (rc2 == 66)):
                        raise Broken('ENCODING-MISMATCH seed=%d: generated-C build and real build disagree\n--- gen rc=%s\n%s\n--- real rc=%s\n%s\n%s' % (sd, rc1, o1[-1500:], rc2, o2[-1500:], e2[-1500:]))
                ok += 1
            r['diff_runs'] = ok
            # replay every distinct failing description once
            seen = set()
            for p in real_fails:
                d = p['description']
                loc = p.get('sourceLocation', {})
                key = d
                if key in seen:
                    continue
                seen.add(key)
                rep = {'description': d, 'property': p.get('property'), 'function': loc.get('function'), 'line': loc.get('line')}
                tr = p.get('trace')
                if not tr:
                    rep['outcome'] = 'no-trace'
                    r['replays'].append(rep)
                    continue
                nd = nd_from_trace(tr)
                os.makedirs(os.path.join(OUT, 'replays'), exist_ok=True)
                hsh = hashlib.sha256((job.id + d + repr(nd)).encode()).hexdigest()[:10]
                ndp = os.path.join(job.dir, 'cex-%s.nd' % hsh)
                write_nd(nd, ndp)
                rc1, o1, e1 = job.run_native(ng, ndfile=ndp)
                rc2, o2, e2 = job.run_native(nr, ndfile=ndp)
                rep['nd'] = [[k, v] for _, k, v in nd][:200]
                rep['gen_rc'], rep['real_rc'] = rc1, rc2
                rep['real_fail_labels'] = re.findall(r'ASSERT-FAIL: (.*)', o2)
                san = re.search(r'(ERROR: AddressSanitizer: [^\n]*|runtime error: [^\n]*|Assertion [^\n]*failed|terminate called[^\n]*)', e2 + o2)
                rep['real_sanitizer'] = san.group(1) if san else None
                same_label = d in rep['real_fail_labels']
                if d.startswith('no exception escapes') or 'exception' in d:
                    same_label = same_label or ('ESCAPED-EXCEPTION' in o2)
                ub_like = d.startswith('UB') or 'dereference failure' in d or 'bounds' in d or 'pointer' in d or d.startswith('std::terminate') or d.startswith('trap') or 'abort' in d
                if same_label:
                    rep['outcome'] = 'reproduced'
                elif ub_like and (rc2 == 66 or rc2 < 0 or rc2 == 134 or san):
                    rep['outcome'] = 'reproduced-ub'
                elif ub_like:
                    rep['outcome'] = 'ub-not-observable'   # standard-level UB without a sanitizer signal: reported separately
                else:
                    rep['outcome'] = 'not-reproduced'
                rep['replay_file'] = ndp
                r['replays'].append(rep)
        r['status'] = 'ok'
    except Broken as e:
        r['status'] = 'broken'
        r['error'] = str(e)
    except Exception as e:  # noqa
        import traceback
        r['status'] = 'broken'
        r['error'] = 'internal: ' + traceback.format_exc()[-2000:]
    r['wall_s'] = round(time.time() - t0, 2)
    return r


def norm_out(o, unordered=False):
    ls = [l for l in o.splitlines() if l.startswith(('EV ', 'ASSERT-FAIL', 'DONE', 'PENDING'))]
    return sorted(ls) if unordered else ls


def load_known():
    kf = []
    p = os.path.join(V, 'known_findings.jsonl')
    if os.path.exists(p):
        for l in open(p):
            l = l.strip()
            if l and l.startswith('{'):
                kf.append(json.loads(l))
    return kf


def main():
    ap = argparse.ArgumentParser()
    ap.add_argument('prop')
    ap.add_argument('--tier', default=os.environ.get('VERIF_TIER', 'quick'))
    ap.add_argument('--only', default=None, help='run only this harness (debug)')
    ap.add_argument('--ndiff', type=int, default=None)
    ap.add_argument('--variant', default=None, help='only variants whose name contains this (debug)')
    ap.add_argument('--jobs', type=int, default=int(os.environ.get('VF_JOBS', '8')))
    ap.add_argument('--replay', default=None, help='replay an nd file: harness.variant:path')
    a = ap.parse_args()
    tier = 'thorough' if a.tier.startswith('t') else ('extra' if a.tier.startswith('e') else 'quick')
    seed = int(os.environ.get('VERIF_SEED', '1'))
    t0 = time.time()
    if not os.path.exists(LL2C):
        subprocess.run(['make', '-C', os.path.join(V, 'll2c')], check=True, stdout=subprocess.DEVNULL)
    jobs = []
    for hname, h in harnesses.H.items():
        if a.prop not in h['props'] and a.prop != 'ALL':
            continue
        if a.only and a.only != hname:
            continue
        vs = h.get('variants', {}).get(tier) or h.get('variants', {}).get('quick') or [{}]
        if tier == 'thorough':   # the thorough tier contains the quick tier
            qn = h.get('variants', {}).get('quick', [])
            names = {v.get('name') for v in vs}
            vs = [v for v in qn if v.get('name') not in names] + list(vs)
        for i, var in enumerate(vs):
            if 'props' in var and a.prop not in var['props'] and a.prop != 'ALL':
                continue
            if a.variant and a.variant not in var.get('name', ''):
                continue
            jobs.append(Job(hname, h, var.get('name', 'v%d' % i), var, tier))
            jobs[-1].prop = a.prop
            jobs[-1].dir = os.path.join(BUILD, a.prop, jobs[-1].id)
    if a.replay:
        jid, path = a.replay.split(':', 1)
        job = next(j for j in jobs if j.id == jid)
        job.build_gen()
        nr = job.build_native_real()
        rc, o, e = job.run_native(nr, ndfile=path)
        print(o)
        print(e[-3000:])
        print('exit', rc)
        return 1 if rc else 0
    if not jobs:
        print('no harness for', a.prop)
        return 2
    ndiff = a.ndiff if a.ndiff is not None else (6 if tier == 'quick' else 25)
    random.Random(seed).shuffle(jobs)
    with cf.ThreadPoolExecutor(max_workers=a.jobs) as ex:
        def _run(j):
            r = run_job(j, ndiff)
            sys.stderr.write('[done] %s %s cbmc=%ss\n' % (r['id'], r['status'], r.get('cbmc_wall_s'))); sys.stderr.flush()   # progress (the table follows at the end)
            return r
        results = list(ex.map(_run, jobs))
    results.sort(key=lambda r: r['id'])
    known = [k for k in load_known() if k.get('property') == a.prop and k.get('status', 'open') == 'open']
    broken = [r for r in results if r['status'] != 'ok']
    violations, knownhits, separate = [], [], []
    for r in results:
        for rep in r.get('replays', []):
            kf = next((k for k in known if k['harness'] == r['harness'] and k['label'] == rep['description']), None)
            if rep['outcome'] in ('reproduced', 'reproduced-ub'):
                (knownhits if kf else violations).append((r, rep, kf))
            elif rep['outcome'] == 'ub-not-observable':
                (knownhits if kf else separate).append((r, rep, kf))
            else:
                r['status'] = 'broken'
                r['error'] = 'ENCODING-MISMATCH: counterexample for "%s" does not reproduce on the real build (gen rc=%s real rc=%s)' % (rep['description'], rep.get('gen_rc'), rep.get('real_rc'))
                broken.append(r)
    out_lines = []
    for r, rep, kf in knownhits:
        out_lines.append('KNOWN-FINDING: property=%s %s [%s: %s]' % (a.prop, kf['what'], r['id'], rep['description']))
    for r, rep, kf in separate:
        # standard-level UB the sanitizers cannot confirm: treated as a violation only if unlisted, reported with its class
        violations.append((r, rep, kf))
    rc = 0
    for r, rep, kf in violations:
        dst = os.path.join(OUT, 'replays', '%s-%s.json' % (a.prop, hashlib.sha256((r['id'] + rep['description']).encode()).hexdigest()[:10]))
        os.makedirs(os.path.dirname(dst), exist_ok=True)
        json.dump({'property': a.prop, 'harness': r['id'], 'assertion': rep['description'], 'outcome': rep['outcome'], 'nd': rep.get('nd'), 'real_fail_labels': rep.get('real_fail_labels'), 'real_sanitizer': rep.get('real_sanitizer'),
                   'how_to_replay': './check %s --tier %s --replay %s:<nd file written from "nd">' % (a.prop, tier, r['id'])}, open(dst, 'w'), indent=1)
        out_lines.append('VIOLATION property=%s replay=%s  (%s: %s; %s)' % (a.prop, dst, r['id'], rep['description'], rep['outcome']))
        rc = 1
    for r in broken:
        out_lines.append('BROKEN %s: %s' % (r['id'], r.get('error', '')[:4000]))
    if broken:
        rc = 2 if rc == 0 else rc
    write_evidence(a.prop, tier, seed, results, time.time() - t0, len(violations), knownhits)
    for r in results:
        print('%-40s %-7s props=%-6s failed=%-3s cbmc=%ss solver=%ss diff=%s' % (r['id'], r['status'], r.get('n_properties'), r.get('n_failed'), r.get('cbmc_wall_s'), r.get('solver_s'), r.get('diff_runs')))
    for l in out_lines:
        print(l)
    print('RESULT property=%s tier=%s exit=%d wall=%.1fs' % (a.prop, tier, rc, time.time() - t0))
    return rc


def write_evidence(prop, tier, seed, results, wall, nviol, knownhits):
    ok = [r for r in results if r['status'] == 'ok']
    samples = []
    for r in ok[:6]:
        if r.get('witness_sample'):
            samples.append({'harness': r['id'], 'witness_nondet_choices(key,value)': r['witness_sample'][:24]})
    nprops = sum(r.get('n_properties', 0) for r in ok)
    nreach = sum(len(r.get('reach_ok', [])) for r in ok)
    ev = {
        'property_id': prop, 'tier': tier, 'seed': seed, 'level': 'model_checking',
        'coverage': {
            'evaluations': max(1, sum(r.get('solver_queries', 0) or 1 for r in ok)),
            'distinct_nontrivial': nreach,
            'rule': 'evaluations = SAT/SMT solver queries discharged by CBMC over all harness variants; distinct_nontrivial = distinct REACH/WITNESS obligations shown reachable (each is a different interesting region of the harness, proven non-vacuous by a solver-produced trace). States/transitions are not meaningful for SAT-based bounded model checking and are not reported.',
            'samples': samples or [{'note': 'no witness sample extracted'}],
            'cbmc_properties_checked': nprops,
            'harnesses': [{k: r.get(k) for k in ('id', 'status', 'defs', 'unwind', 'n_properties', 'n_failed', 'vccs', 'vccs_remaining', 'sat_vars', 'sat_clauses', 'solver_s', 'solver_queries', 'cbmc_wall_s', 'wall_s', 'reach_ok', 'diff_runs', 'ir_functions', 'cbmc_cmd', 'error')} for r in results],
            'traces_validated_against_impl': sum(r.get('diff_runs', 0) for r in ok) + sum(len(r.get('replays', [])) for r in ok),
            'known_findings_hit': [kf['what'] for _, _, kf in knownhits],
            'replays': [rep for r in ok for rep in r.get('replays', [])][:20],
            'exhaustive': False,
            'functions_encoded': sorted({f for r in ok for f in r.get('ir_functions', {}).get('encoded', [])})[:120],
            'bounds': harnesses.bounds_text(prop, tier),
        },
        'assumptions': harnesses.assumptions_text(prop),
        'wall_s': round(wall, 2),
        'violations': nviol,
    }
    os.makedirs(os.path.join(OUT, 'evidence'), exist_ok=True)
    with open(os.path.join(OUT, 'evidence', prop + '.json'), 'w') as f:
        json.dump(ev, f, indent=1, default=str)


if __name__ == '__main__':
    sys.exit(main())
