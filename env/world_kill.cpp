// libc boundary of BaseKillPlugin over the Fs-API world: cgroup.procs streams, kill(2), pidfd_open / process_mrelease.
#include "world.h"
#include <sys/syscall.h>
#include <stdio.h>
#include <errno.h>
using namespace vfw;
namespace {
struct Stream { int node; int pos; bool open; int npids; int pids[VFW_MAXPIDS]; };   // cgroup.procs is a snapshot taken when the file is opened
Stream g_stream;   // BaseKillPlugin closes cgroup.procs before it recurses into the children: one stream is open at a time
int g_kill_calls = 0;
}
#if !VF_MODEL
#include <sys/mman.h>
#include <unistd.h>
#include <string.h>
#endif
extern "C" {
// (the variadic libc entry points vfx_openat / vfx_syscall are thin C wrappers in env/libc_stubs.c)
int vfk_openat(int dirfd) {
  int n = node_of_fd(dirfd);
  vf_event(EV_OPENPROCS, n, dirfd, 0, 0);
  if (n < 0 || !((nodes[n].avail >> F_PROCS) & 1)) { errno = ENOENT; return -1; }
#if !VF_MODEL
  // real build: a real descriptor with the same text (the real fdopen / getline / fclose run on it)
  char text[64 * VFW_MAXPIDS + 8]; int len = 0;
  for (int k = 0; k < nodes[n].npids; k++) len += snprintf(text + len, sizeof(text) - len, "%d\n", nodes[n].pids[k]);
  int fd = ::memfd_create("procs", 0);
  if (fd < 0 || ::write(fd, text, len) != len || ::lseek(fd, 0, SEEK_SET) != 0) vf_fail("env: memfd");
  return fd;
#else
  if (g_stream.open) vf_fail("env: a second cgroup.procs stream opened while one is open (descriptor leak)");
  g_stream.node = n; g_stream.pos = 0; g_stream.open = true;
  g_stream.npids = nodes[n].npids; for (int k = 0; k < VFW_MAXPIDS; k++) g_stream.pids[k] = nodes[n].pids[k];
  return 5000;
#endif
}
FILE* vfx_fdopen(int fd, const char*) { if (fd != 5000 || !g_stream.open) return nullptr; return (FILE*)&g_stream; }
ssize_t vfx_getline(char** line, size_t* len, FILE* fp) {
  Stream* s = (Stream*)fp;
  if (!s->open) vf_fail("env: getline on a closed stream");
  if (s->pos >= s->npids) return -1;
  int pid = s->pids[s->pos++];
  if (*line == nullptr) { *line = (char*)::malloc(8); *len = 8; }
  char* b = *line; int k = 0;
  if (pid >= 100) b[k++] = (char)('0' + pid / 100 % 10);
  if (pid >= 10) b[k++] = (char)('0' + pid / 10 % 10);
  b[k++] = (char)('0' + pid % 10); b[k++] = '\n'; b[k] = 0;
  return k;
}
int vfx_fclose(FILE* fp) { Stream* s = (Stream*)fp; if (!s->open) vf_fail("env: double fclose"); s->open = false; return 0; }
int vfx_close(int fd) { (void)fd; return 0; }
int vfx_kill(pid_t pid, int sig) {
  int r = (int)vf_nd(4000 + (g_kill_calls < 12 ? g_kill_calls : 12), 0, 1);   // 0 delivered, 1 ESRCH/EPERM
  g_kill_calls++;
  vf_event(EV_KILL, pid, sig, r, 0);
  if (r) { errno = ESRCH; return -1; }
  // a delivered SIGKILL makes the process leave cgroup.procs (it is gone by the next read)
  // (constant loop bounds: the pid lists are symbolic, so data-dependent bounds would unwind to the limit)
  if (pid > 0) for (int n = 0; n < VFW_MAXN; n++) { if (n >= nnodes) continue; Node& nd = nodes[n]; int w = 0; for (int k = 0; k < VFW_MAXPIDS; k++) if (k < nd.npids && nd.pids[k] != pid) nd.pids[w++] = nd.pids[k]; nd.npids = w; }
  return 0;
}
long vfk_syscall(long nr, long a0) {
  vf_event(EV_SYSCALL, nr, (int)a0, 0, 0);
  if (nr == SYS_pidfd_open) { if (vf_nd(4100, 0, 1)) { errno = ESRCH; return -1; } return 6000 + (int)a0; }
  if (vf_nd(4101, 0, 1)) { errno = ESRCH; return -1; }
  return 0;
}
}
