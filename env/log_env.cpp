// time formatting is unavailable in the logger harness (OOMD_LOG_TIME() then yields an empty string)
#include <time.h>
extern "C" struct tm* vfx_localtime_r(const time_t*, struct tm*) { return nullptr; }
