// Util::generateUuid is replaced by a fresh-counter stub ("u<serial>") so that uuid freshness/identity is observable.
// (Util.cpp is compiled with -DgenerateUuid=vf_unused_generateUuid for harnesses that link this file.)
#include "prelude.h"
#include "oomd/util/Util.h"
static int g_uuid_serial = 0;
extern "C" int vf_uuid_serial_of(const char* s);
namespace Oomd {
std::string Util::generateUuid() { g_uuid_serial++; return std::string("u") + std::to_string(g_uuid_serial); }
}
