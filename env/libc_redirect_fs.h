#pragma once
// Force-included when compiling Fs.cpp for the Fs-leaf harness (and included first by the harness itself): the libc file
// API that Fs.cpp uses for cgroup control files is redirected to the file model in env/fs_libc.cpp, identically in the IR
// build and in the real g++ build. (Fs::Fd::openat / close are renamed along, consistently in every TU that includes this.)
#include <dirent.h>
#include <fcntl.h>
#include <stdio.h>
#include <stdlib.h>
#include <sys/stat.h>
#include <sys/types.h>
#include <sys/xattr.h>
#include <unistd.h>
#ifdef __cplusplus
extern "C" {
#endif
int vfx_fs_openat(int dirfd, const char* path, int flags, ...);
int vfx_fs_open(const char* path, int flags, ...);
FILE* vfx_fs_fdopen(int fd, const char* mode);
ssize_t vfx_fs_getline(char** line, size_t* len, FILE* fp);
int vfx_fs_fclose(FILE* fp);
int vfx_fs_close(int fd);
ssize_t vfx_fs_fgetxattr(int fd, const char* name, void* value, size_t size);
int vfx_fs_real_open_dir(void);
#ifdef __cplusplus
}
#endif
#define openat vfx_fs_openat
#define open vfx_fs_open
#if VF_MODEL
/* model build only: the stream is a model object. (In the real build libstdc++'s <cstdio> #undefs fclose & co, so the real
 * stdio runs there on a real descriptor - a memfd holding the same content - handed out by the redirected openat.) */
#define fdopen vfx_fs_fdopen
#define getline vfx_fs_getline
#define fclose vfx_fs_fclose
#define close vfx_fs_close
#endif
#define fgetxattr vfx_fs_fgetxattr
