/* variadic libc entry points redirected by env/libc_redirect.h; bodies live in env/world_kill.cpp */
#include <stdarg.h>
#include <stdint.h>
uint32_t vfk_openat(uint32_t dirfd);
uint64_t vfk_syscall(uint64_t nr, uint64_t a0);
uint32_t vfx_openat(uint32_t dirfd, uint8_t* path, uint32_t flags, ...) { (void)path; (void)flags; return vfk_openat(dirfd); }
uint64_t vfx_syscall(uint64_t nr, ...) { va_list ap; va_start(ap, nr); uint64_t a0 = (uint64_t)va_arg(ap, int); va_end(ap); return vfk_syscall(nr, a0); }
