#pragma once
// Force-included (-include) when compiling oomd sources that call libc directly (BaseKillPlugin.cpp, ...): the calls are
// redirected to the environment model (vfx_*), identically in the IR build and in the real g++ build.
#include <fcntl.h>
#include <signal.h>
#include <stdio.h>
#include <stdlib.h>
#include <sys/syscall.h>
#include <sys/types.h>
#include <unistd.h>
#ifdef __cplusplus
extern "C" {
#endif
int vfx_openat(int dirfd, const char* path, int flags, ...);
FILE* vfx_fdopen(int fd, const char* mode);
ssize_t vfx_getline(char** line, size_t* len, FILE* fp);
int vfx_fclose(FILE* fp);
int vfx_close(int fd);
int vfx_kill(pid_t pid, int sig);
long vfx_syscall(long nr, ...);
#ifdef __cplusplus
}
#endif
#define openat vfx_openat
#if VF_MODEL
/* model build only: the cgroup.procs stream is a model object. In the real build libstdc++'s <cstdio> #undefs fclose & co,
 * so the real stdio runs there on a real descriptor (a memfd with the same text) handed out by the redirected openat. */
#define fdopen vfx_fdopen
#define getline vfx_getline
#define fclose vfx_fclose
#define close vfx_close
#endif
#define kill vfx_kill
#define syscall vfx_syscall
