// OomdContext::dump (pure logging of every statistic of every cgroup) is a sink in the kill-plugin harnesses
// (OomdContext.cpp is compiled with -Ddump=vf_unused_dump there).
#include "prelude.h"
#include "oomd/OomdContext.h"
namespace Oomd {
void OomdContext::dump() {}
void OomdContext::dump(const std::vector<ConstCgroupContextRef>&, const bool) {}
}
