// Implementation of the Fs-API world (see world.h). Every mutation the code under test performs through Fs is an event.
#include "world.h"
#include "oomd/util/Util.h"
using namespace Oomd;
namespace vfw {
Node nodes[VFW_MAXN];
int nnodes = 0;
const char* fsroot = "/c";
int fsroot_len = 2;
int64_t meminfo_memtotal = 0, meminfo_swaptotal = 0, meminfo_swapfree = 0;
bool meminfo_ok = true;
int access_count = 0, fault_at = -1, fault_kind = 0, fault_node = -1;

int add(const char* rel, const char* name, int parent) {
  if (nnodes >= VFW_MAXN) { vf_bound("world nodes"); return -1; }
  Node& n = nodes[nnodes];
  n.rel = rel; n.name = name; n.parent = parent; n.depth = parent < 0 ? 0 : nodes[parent].depth + 1;
  n.exists = true; n.gen = 0; n.avail = ~0u; n.npids = 0; n.dtype_known = true; n.xattrs = 0; n.populated = true; n.oom_group = false; n.has_pgscan = true;
  return nnodes++;
}
void set_all_avail(int n) { nodes[n].avail = ~0u; }
static bool streq(const char* a, const char* b) { while (*a && *a == *b) { a++; b++; } return *a == *b; }
int find_abs(const std::string& abs) {
  // abs must be fsroot or fsroot + "/" + rel
  size_t L = (size_t)fsroot_len;
  if (abs.size() < L) return -1;
  for (size_t i = 0; i < L; i++) if (abs[i] != fsroot[i]) return -1;
  if (abs.size() == L) { for (int i = 0; i < nnodes; i++) if (nodes[i].rel[0] == 0) return i; return -1; }
  if (abs[L] != '/') return -1;
  const char* r = abs.c_str() + L + 1;
  for (int i = 0; i < nnodes; i++) if (nodes[i].rel[0] != 0 && streq(nodes[i].rel, r)) return i;
  return -1;
}
int fd_of(int node) { return 16 + node * 8 + (nodes[node].gen & 7); }
int node_of_fd(int fd) {
  if (fd < 16) return -1;
  int n = (fd - 16) / 8, g = (fd - 16) % 8;
  if (n < 0 || n >= nnodes) return -1;
  if (!nodes[n].exists || (nodes[n].gen & 7) != g) return -1;
  return n;
}
bool fnmatch1(const char* p, const char* s) {
  // shell wildcard match of one path component: '*' any run, '?' any one char (no brackets/braces in the modelled configs).
  // Iterative single-star-backtracking algorithm (no recursion: bounded symbolic execution friendly).
  int pi = 0, si = 0, star = -1, mark = 0;
  for (int guard = 0; guard < 64; guard++) {
    if (s[si] == 0) break;
    if (p[pi] == '?' || (p[pi] != '*' && p[pi] != 0 && p[pi] == s[si])) { pi++; si++; }
    else if (p[pi] == '*') { star = pi; mark = si; pi++; }
    else if (star >= 0) { pi = star + 1; mark++; si = mark; }
    else return false;
  }
  while (p[pi] == '*') pi++;
  return p[pi] == 0 && s[si] == 0;
}
void remove_node(int n) { nodes[n].exists = false; for (int i = 0; i < nnodes; i++) if (nodes[i].parent == n && nodes[i].exists) remove_node(i); }
void recreate_node(int n) { if (nodes[n].parent >= 0 && !nodes[nodes[n].parent].exists) return; nodes[n].exists = true; nodes[n].gen++; if (nodes[n].gen > 7) vf_bound("incarnations"); nodes[n].npids = 0; nodes[n].x_has_ooms[0] = nodes[n].x_has_ooms[1] = nodes[n].x_has_kill[0] = nodes[n].x_has_kill[1] = false; nodes[n].x_uuid[0] = nodes[n].x_uuid[1] = 0; }
static void access() {
  if (fault_at >= 0 && access_count == fault_at && fault_node >= 0 && fault_node < nnodes) {
    if (fault_kind == 1) remove_node(fault_node);
    else if (fault_kind == 2) { remove_node(fault_node); recreate_node(fault_node); }
    vf_event(EV_NOTE, 900 + fault_kind, fault_node, access_count, 0);
  }
  access_count++;
}
static bool avail(int n, int f) { return (nodes[n].avail >> f) & 1; }
// component-wise glob of an absolute pattern over the live skeleton
static bool match_rel(const std::string& pat_rel, const Node& n) {
  auto pp = Util::split(pat_rel, '/');
  auto np = Util::split(std::string(n.rel), '/');
  if (pp.size() != np.size()) return false;
  for (size_t i = 0; i < pp.size(); i++) if (!fnmatch1(pp[i].c_str(), np[i].c_str())) return false;
  return true;
}
}  // namespace vfw
using namespace vfw;
#define NODE_OR_ERR(n, dirfd, f)                      \
  access();                                           \
  int n = node_of_fd((dirfd).fd());                   \
  if (n < 0) return SYSTEM_ERROR(ENOENT);             \
  if (!avail(n, f)) return SYSTEM_ERROR(ENOENT)

namespace Oomd {
SystemMaybe<std::vector<std::string>> Fs::glob(const std::string& pattern, bool dir_only) {
  access();
  std::vector<std::string> ret;
  size_t L = (size_t)fsroot_len;
  if (pattern.size() < L) return ret;
  for (size_t i = 0; i < L; i++) if (pattern[i] != fsroot[i]) return ret;   // patterns outside the cgroup fs match nothing in this world
  std::string rel = pattern.size() > L ? pattern.substr(L) : std::string();
  if (!rel.empty() && rel[0] != '/') return ret;
  for (int i = 0; i < nnodes; i++) {
    if (!nodes[i].exists) continue;
    bool anc = true; for (int p = nodes[i].parent; p >= 0; p = nodes[p].parent) if (!nodes[p].exists) anc = false;
    if (!anc) continue;
    if (match_rel(rel, nodes[i])) ret.push_back(nodes[i].rel[0] ? std::string(fsroot) + "/" + nodes[i].rel : std::string(fsroot));
  }
  return ret;
}
SystemMaybe<Fs::DirFd> Fs::DirFd::open(const std::string& path) {
  access();
  int n = find_abs(path);
  if (n < 0 || !nodes[n].exists) return SYSTEM_ERROR(ENOENT);
  return DirFd(fd_of(n));
}
SystemMaybe<Fs::DirFd> Fs::DirFd::openChildDir(const std::string& name) const {
  access();
  int n = node_of_fd(fd());
  if (n < 0) return SYSTEM_ERROR(ENOENT);
  for (int i = 0; i < nnodes; i++) if (nodes[i].parent == n && nodes[i].exists && name == nodes[i].name) return DirFd(fd_of(i));
  return SYSTEM_ERROR(ENOENT);
}
SystemMaybe<Fs::Fd> Fs::Fd::openat(const DirFd& dirfd, const std::string& path, bool) { access(); return SYSTEM_ERROR(ENOENT); }   // only used for the memory.stat log dump
SystemMaybe<Fs::Fd> Fs::Fd::open(const std::string&, bool) { access(); return SYSTEM_ERROR(ENOENT); }
void Fs::Fd::close() { fd_ = -1; }
SystemMaybe<uint64_t> Fs::Fd::inode() const { access(); int n = node_of_fd(fd_); if (n < 0) return SYSTEM_ERROR(ENOENT); return (uint64_t)(1000 + n * 8 + (nodes[n].gen & 7)); }
bool Fs::isCgroupValid(const DirFd& dirfd) { access(); int n = node_of_fd(dirfd.fd()); return n >= 0 && avail(n, F_CONTROLLERS); }
SystemMaybe<Fs::DirEnts> Fs::readDirAt(const DirFd& dirfd, int flags) {
  access();
  int n = node_of_fd(dirfd.fd());
  if (n < 0) return SYSTEM_ERROR(ENOENT);
  DirEnts de;
  if (flags & DE_DIR) for (int i = 0; i < nnodes; i++) if (nodes[i].parent == n && nodes[i].exists) de.dirs.push_back(nodes[i].name);
  return de;
}
bool Fs::isDir(const std::string& path) { access(); int n = find_abs(path); return n >= 0 && nodes[n].exists; }
SystemMaybe<std::vector<std::string>> Fs::readFileByLine(const std::string&, const char) { access(); return SYSTEM_ERROR(ENOENT); }   // /proc/<pid>/comm etc.: absent
SystemMaybe<std::vector<std::string>> Fs::readFileByLine(Fd&&) { access(); return SYSTEM_ERROR(ENOENT); }
SystemMaybe<std::vector<int>> Fs::getPidsAt(const DirFd& dirfd) { NODE_OR_ERR(n, dirfd, F_PROCS); std::vector<int> v; for (int i = 0; i < nodes[n].npids; i++) v.push_back(nodes[n].pids[i]); return v; }
SystemMaybe<bool> Fs::readIsPopulatedAt(const DirFd& dirfd) { NODE_OR_ERR(n, dirfd, F_EVENTS); return nodes[n].populated; }
SystemMaybe<int64_t> Fs::readMemcurrentAt(const DirFd& dirfd) { NODE_OR_ERR(n, dirfd, F_CUR); return nodes[n].cur; }
SystemMaybe<int64_t> Fs::readRootMemcurrent() { access(); if (!meminfo_ok) return SYSTEM_ERROR(ENOENT); return nodes[0].cur; }
SystemMaybe<int64_t> Fs::readMemlowAt(const DirFd& dirfd) { NODE_OR_ERR(n, dirfd, F_LOW); return nodes[n].low; }
SystemMaybe<int64_t> Fs::readMemminAt(const DirFd& dirfd) { NODE_OR_ERR(n, dirfd, F_MIN); return nodes[n].min; }
SystemMaybe<int64_t> Fs::readMemhighAt(const DirFd& dirfd) { NODE_OR_ERR(n, dirfd, F_HIGH); return nodes[n].high; }
SystemMaybe<int64_t> Fs::readMemmaxAt(const DirFd& dirfd) { NODE_OR_ERR(n, dirfd, F_MAX); return nodes[n].max; }
SystemMaybe<int64_t> Fs::readMemhightmpAt(const DirFd& dirfd) { NODE_OR_ERR(n, dirfd, F_HIGHTMP); return nodes[n].hightmp; }
SystemMaybe<int64_t> Fs::readSwapCurrentAt(const DirFd& dirfd) { NODE_OR_ERR(n, dirfd, F_SWAPCUR); return nodes[n].swapcur; }
SystemMaybe<int64_t> Fs::readSwapMaxAt(const DirFd& dirfd) { NODE_OR_ERR(n, dirfd, F_SWAPMAX); return nodes[n].swapmax; }
SystemMaybe<int64_t> Fs::readPidsCurrentAt(const DirFd& dirfd) { NODE_OR_ERR(n, dirfd, F_PIDSCUR); return nodes[n].pids_current; }
SystemMaybe<int64_t> Fs::getNrDyingDescendantsAt(const DirFd& dirfd) { NODE_OR_ERR(n, dirfd, F_CGSTAT); return nodes[n].nr_dying; }
SystemMaybe<bool> Fs::readMemoryOomGroupAt(const DirFd& dirfd) { NODE_OR_ERR(n, dirfd, F_OOMGROUP); return nodes[n].oom_group; }
static ResourcePressure mkpsi(const float* p) { return ResourcePressure{p[0], p[1], p[2], std::nullopt}; }
SystemMaybe<ResourcePressure> Fs::readMempressureAt(const DirFd& dirfd, PressureType t) { NODE_OR_ERR(n, dirfd, F_MEMPSI); return mkpsi(nodes[n].psi[0][t == PressureType::FULL ? 1 : 0]); }
SystemMaybe<ResourcePressure> Fs::readIopressureAt(const DirFd& dirfd, PressureType t) { NODE_OR_ERR(n, dirfd, F_IOPSI); return mkpsi(nodes[n].psi[1][t == PressureType::FULL ? 1 : 0]); }
SystemMaybe<ResourcePressure> Fs::readRootMempressure(PressureType t) { access(); if (!avail(0, F_MEMPSI)) return SYSTEM_ERROR(ENOENT); return mkpsi(nodes[0].psi[0][t == PressureType::FULL ? 1 : 0]); }
SystemMaybe<ResourcePressure> Fs::readRootIopressure(PressureType t) { access(); if (!avail(0, F_IOPSI)) return SYSTEM_ERROR(ENOENT); return mkpsi(nodes[0].psi[1][t == PressureType::FULL ? 1 : 0]); }
SystemMaybe<KillPreference> Fs::readKillPreferenceAt(const DirFd& dirfd) {
  NODE_OR_ERR(n, dirfd, F_XATTR);
  if (nodes[n].xattrs & 3) return KillPreference::PREFER;
  if (nodes[n].xattrs & 12) return KillPreference::AVOID;
  return KillPreference::NORMAL;
}
SystemMaybe<bool> Fs::hasxattrAt(const DirFd& dirfd, const std::string&) { NODE_OR_ERR(n, dirfd, F_XATTR); return (nodes[n].xattrs & 16) != 0; }
SystemMaybe<std::unordered_map<std::string, int64_t>> Fs::getMemstatAt(const DirFd& dirfd) {
  NODE_OR_ERR(n, dirfd, F_STAT);
  std::unordered_map<std::string, int64_t> m;
  m["anon"] = nodes[n].anon; m["file"] = nodes[n].file; m["shmem"] = nodes[n].shmem;
  if (nodes[n].has_pgscan) m["pgscan"] = nodes[n].pgscan;
  return m;
}
SystemMaybe<IOStat> Fs::readIostatAt(const DirFd& dirfd) {
  NODE_OR_ERR(n, dirfd, F_IOSTAT);
  IOStat v; DeviceIOStat d; d.dev_id = "1:0"; d.rbytes = nodes[n].io[0]; d.wbytes = nodes[n].io[1]; d.rios = nodes[n].io[2]; d.wios = nodes[n].io[3]; d.dbytes = nodes[n].io[4]; d.dios = nodes[n].io[5];
  v.push_back(d); return v;
}
SystemMaybe<std::unordered_map<std::string, int64_t>> Fs::getMeminfo(const std::string&) {
  access();
  if (!meminfo_ok) return SYSTEM_ERROR(ENOENT);
  std::unordered_map<std::string, int64_t> m; m["MemTotal"] = meminfo_memtotal; m["SwapTotal"] = meminfo_swaptotal; m["SwapFree"] = meminfo_swapfree; m["MemFree"] = 0;
  return m;
}
SystemMaybe<std::unordered_map<std::string, int64_t>> Fs::getVmstat(const std::string&) { access(); return std::unordered_map<std::string, int64_t>{}; }
static SystemMaybe<Unit> wr(const Fs::DirFd& dirfd, int file, int64_t value) {
  access();
  int n = node_of_fd(dirfd.fd());
  vf_event(EV_WRITE, n, file, value, dirfd.fd());
  if (n < 0 || !avail(n, file)) return SYSTEM_ERROR(ENOENT);
  return noSystemError();
}
SystemMaybe<Unit> Fs::writeMemhighAt(const DirFd& dirfd, int64_t value) { auto r = wr(dirfd, F_HIGH, value); if (r) nodes[node_of_fd(dirfd.fd())].high = value; return r; }
SystemMaybe<Unit> Fs::writeMemhightmpAt(const DirFd& dirfd, int64_t value, std::chrono::microseconds) { return wr(dirfd, F_HIGHTMP, value); }
SystemMaybe<Unit> Fs::writeMemReclaimAt(const DirFd& dirfd, int64_t value, std::optional<int64_t>) { return wr(dirfd, F_RECLAIM, value); }
SystemMaybe<Unit> Fs::writeFreezeAt(const DirFd& dirfd, int value) { return wr(dirfd, F_FREEZE, value); }
SystemMaybe<Unit> Fs::writeKillAt(const DirFd& dirfd) { return wr(dirfd, F_KILL, 1); }
static int xidx(const std::string& a, int* which) {
  // returns 0 trusted / 1 user; *which: 1 ooms, 2 kill, 3 uuid
  int tu = a.size() > 5 && a[0] == 'u' ? 1 : 0;
  const char* tail = a.c_str() + (tu ? 5 : 8);
  *which = streq(tail, "oomd_ooms") ? 1 : streq(tail, "oomd_kill") ? 2 : streq(tail, "oomd_kill_uuid") ? 3 : 0;
  return tu;
}
extern "C" int vf_uuid_serial_of(const char* s);
SystemMaybe<Unit> Fs::setxattr(const std::string& path, const std::string& attr, const std::string& val) {
  access();
  int n = find_abs(path);
  int which = 0, tu = xidx(attr, &which);
  int64_t num = -1;
  if (which == 3) num = vf_uuid_serial_of(val.c_str());
  else { size_t used = 0; try { num = std::stoll(val, &used); } catch (...) { num = -2; } }
  vf_event(EV_SETXATTR, n, which * 2 + tu, num, 0);
  if (n < 0 || !nodes[n].exists || !avail(n, F_XATTR)) return SYSTEM_ERROR(ENOENT);
  if (which == 1) { nodes[n].x_ooms[tu] = num; nodes[n].x_has_ooms[tu] = true; }
  if (which == 2) { nodes[n].x_kill[tu] = num; nodes[n].x_has_kill[tu] = true; }
  if (which == 3) nodes[n].x_uuid[tu] = (int)num;
  return noSystemError();
}
// accounting xattr values are kept within int (the 32-bit decimal conversion is much cheaper for the solver)
static int xint(int64_t v) { if (v < -2147483647 || v > 2147483647) vf_bound("xattr value outside int"); return (int)v; }
SystemMaybe<std::string> Fs::getxattr(const std::string& path, const std::string& attr) {
  access();
  int n = find_abs(path);
  if (n < 0 || !nodes[n].exists || !avail(n, F_XATTR)) return SYSTEM_ERROR(ENOENT);
  int which = 0, tu = xidx(attr, &which);
  if (which == 1) return nodes[n].x_has_ooms[tu] ? std::to_string(xint(nodes[n].x_ooms[tu])) : std::string("");
  if (which == 2) return nodes[n].x_has_kill[tu] ? std::to_string(xint(nodes[n].x_kill[tu])) : std::string("");
  return std::string("");
}
SystemMaybe<int> Fs::getSwappiness(const std::string&) { access(); return 60; }
SystemMaybe<Unit> Fs::setSwappiness(int v, const std::string&) { access(); vf_event(EV_WRITE, -2, 99, v, 0); return noSystemError(); }
}  // namespace Oomd
