// Environment model for the Stats public API (the singleton with its socket thread is the subject of C19 only):
// a small counter table indexed by key id; every update is an observable event.
#include "prelude.h"
#include "oomd/Stats.h"
#include "oomd/include/CoreStats.h"
namespace {
int g_val[5]; bool g_has[5];
int keyId(const std::string& k) {
  if (k == Oomd::CoreStats::kKillsKey) return 1;
  if (k == Oomd::CoreStats::kNumDropInAdds) return 2;
  if (k == Oomd::CoreStats::kNumDropInFired) return 3;
  return 4;   // any other key
}
}
namespace Oomd {
std::unordered_map<std::string, int> getStats() {
  std::unordered_map<std::string, int> m;
  if (g_has[1]) m[CoreStats::kKillsKey] = g_val[1];
  if (g_has[2]) m[CoreStats::kNumDropInAdds] = g_val[2];
  if (g_has[3]) m[CoreStats::kNumDropInFired] = g_val[3];
  return m;
}
int incrementStat(const std::string& key, int val) { int id = keyId(key); g_has[id] = true; g_val[id] += val; vf_event(EV_STAT, id, val, 0, g_val[id]); return 0; }
int setStat(const std::string& key, int val) { int id = keyId(key); g_has[id] = true; g_val[id] = val; vf_event(EV_STAT, id, val, 1, val); return 0; }
int resetStats() { for (int i = 0; i < 5; i++) g_val[i] = 0; return 0; }
}
extern "C" int vf_stat_value(int id) { return (id >= 0 && id < 5) ? g_val[id] : 0; }
