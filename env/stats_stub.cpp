// Environment model for the Stats public API (the singleton with its socket thread is the subject of C19 only):
// a small counter table; every update is an observable event.
#include "prelude.h"
#include "oomd/Stats.h"
#include "oomd/include/CoreStats.h"
namespace {
struct Ent { std::string k; int v; };
Ent g_tab[8]; int g_n = 0;
int keyId(const std::string& k) {
  if (k == Oomd::CoreStats::kKillsKey) return 1;
  if (k == Oomd::CoreStats::kNumDropInAdds) return 2;
  if (k == Oomd::CoreStats::kNumDropInFired) return 3;
  return 9;
}
Ent* find(const std::string& k) { for (int i = 0; i < g_n; i++) if (g_tab[i].k == k) return &g_tab[i]; if (g_n >= 8) { vf_bound("stats table"); return nullptr; } g_tab[g_n].k = k; g_tab[g_n].v = 0; return &g_tab[g_n++]; }
}
namespace Oomd {
std::unordered_map<std::string, int> getStats() { std::unordered_map<std::string, int> m; for (int i = 0; i < g_n; i++) m[g_tab[i].k] = g_tab[i].v; return m; }
int incrementStat(const std::string& key, int val) { Ent* e = find(key); if (e) e->v += val; vf_event(EV_STAT, keyId(key), val, 0, e ? e->v : 0); return 0; }
int setStat(const std::string& key, int val) { Ent* e = find(key); if (e) e->v = val; vf_event(EV_STAT, keyId(key), val, 1, val); return 0; }
int resetStats() { for (int i = 0; i < g_n; i++) g_tab[i].v = 0; return 0; }
}
extern "C" int vf_stat_value(int id) { for (int i = 0; i < g_n; i++) if (keyId(g_tab[i].k) == id) return g_tab[i].v; return 0; }
