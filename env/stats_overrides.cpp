// Override for the Stats harness: the socket set-up of the constructor is cut (no socket, no listener thread); the harness
// drives Stats::processMsg directly, the way the listener thread does for every accepted connection.
#include "prelude.h"
#include "oomd/Stats.h"
namespace Oomd {
bool Stats::startSocket() { sockfd_ = -1; return true; }
}
