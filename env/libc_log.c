/* environment for the logger harness: the kmsg fd is an event sink, time formatting is unavailable */
#include "vf_rt.h"
#include "vf_events.h"
uint64_t vfx_write(uint32_t fd, uint8_t* buf, uint64_t n) { vf_event(EV_WRITE, fd, n, n ? buf[0] : 0, n ? buf[n - 1] : 0); return n; }
uint64_t vfx_read(uint32_t fd, uint8_t* buf, uint64_t n) { return 0; }
uint32_t vfx_close(uint32_t fd) { vf_event(EV_NOTE, 700, fd, 0, 0); return 0; }
void vfx_perror(uint8_t* s) {}
/* ostream hook (VSTL_OSTREAM_HOOK): what is written to a std::ostream is an event: (stream id unused) length, first and last byte */
void vf_os_write(uint8_t* os, uint8_t* s, uint64_t n) { vf_event(EV_NOTE, 600, n, n ? s[0] : 0, n ? s[n - 1] : 0); }
void vf_os_int(uint8_t* os, uint64_t v) { /* as libstdc++ hands the formatted digits to the streambuf: one block of decimal text */
  int nd = 1; uint64_t t = v, first = v; while (t >= 10) { t /= 10; nd++; first = t; } vf_event(EV_NOTE, 600, nd, '0' + first, '0' + v % 10); }
