// Function overrides for the kill-plugin harnesses (linked with llvm-link --override / weak symbols in the real build).
// Only logging-only functions are cut here; each one is listed in the evidence as outside the claim.
#include "prelude.h"
#include "oomd/plugins/BaseKillPlugin.h"
namespace Oomd {
// dumps memory.stat of the victim into the log before the kill; its only result is "could the file be read", which
// only selects a log line. The real one concatenates and formats long strings (beyond the harness string capacity).
int BaseKillPlugin::dumpMemoryStat(const CgroupContext&) { return 0; }
}
