/* variadic libc entry points redirected by env/libc_redirect_fs.h; bodies live in the harness (h_fsleaf.cpp) */
#include <stdarg.h>
#include <stdint.h>
uint32_t vfx_fsk_openat(uint32_t dirfd, uint8_t* path);
uint32_t vfx_fs_openat(uint32_t dirfd, uint8_t* path, uint32_t flags, ...) { (void)flags; return vfx_fsk_openat(dirfd, path); }
uint32_t vfx_fs_open(uint8_t* path, uint32_t flags, ...) { (void)flags; return vfx_fsk_openat((uint32_t)-100, path); }
#ifdef VF_REAL
/* real build only (this file is not subject to the redirect macros): a descriptor whose read(2) fails */
#include <fcntl.h>
int vfx_fs_real_open_dir(void) { return open("/", O_RDONLY | O_DIRECTORY); }
#endif
