/* model build: read / write / close of the Stats session (the real build uses a real socketpair).
 * Types follow ll2c's conventions (LLVM integers are emitted as unsigned C types). */
#include <stdint.h>
#include <errno.h>
uint32_t vf_st_nbytes; static uint8_t vf_st_bytes[40]; uint32_t vf_st_end, vf_st_nwrite, vf_st_nclose;
void vf_st_setbyte(uint32_t i, uint32_t v) { if (i < 40) vf_st_bytes[i] = (uint8_t)v; }   /* session script and observations (set / read by the harness) */
static uint32_t pos;
uint64_t vfx_read(uint32_t fd, uint8_t* buf, uint64_t n) { (void)fd; if (n < 1) return 0; if (pos < vf_st_nbytes) { buf[0] = vf_st_bytes[pos++]; return 1; } if (vf_st_end) { errno = EAGAIN; return (uint64_t)-1; } return 0; }
#ifndef VF_REAL
uint64_t vfx_st_write(uint32_t fd, uint8_t* buf, uint64_t n) { (void)fd; (void)buf; vf_st_nwrite++; return n; }
#else
#include <unistd.h>
#include <sys/syscall.h>
long vfx_st_write(int fd, const void* buf, unsigned long n) { vf_st_nwrite++; return syscall(SYS_write, fd, buf, n); }   /* real build: counted, then the real write */
#endif
uint32_t vfx_close(uint32_t fd) { (void)fd; vf_st_nclose++; return 0; }
