// Bodies for the Fs entry points that CgroupPath / Ruleset reference but that must never be reached in harnesses
// without a cgroup world (reaching one is reported, not silently nondeterministic).
#include "prelude.h"
#include "oomd/util/Fs.h"
namespace Oomd {
SystemMaybe<std::vector<std::string>> Fs::glob(const std::string&, bool) { vf_fail("env: Fs::glob reached in a harness without a cgroup world"); return std::vector<std::string>{}; }
SystemMaybe<Fs::DirFd> Fs::DirFd::open(const std::string&) { vf_fail("env: Fs::DirFd::open reached in a harness without a cgroup world"); return SYSTEM_ERROR(ENOENT); }
SystemMaybe<bool> Fs::hasxattrAt(const DirFd&, const std::string&) { vf_fail("env: Fs::hasxattrAt reached in a harness without a cgroup world"); return false; }
void Fs::Fd::close() { fd_ = -1; }
}
