#pragma once
// Force-included when compiling Log.cpp / Util.cpp for the logger harness: write(2)/close(2) on the kmsg fd and the
// time formatting helpers go to the environment model.
#include <unistd.h>
#include <time.h>
#include <stdio.h>
#include <string>
#include <iostream>
#include <sstream>
#include <fstream>
#ifdef __cplusplus
extern "C" {
#endif
ssize_t vfx_write(int fd, const void* buf, size_t n);
ssize_t vfx_read(int fd, void* buf, size_t n);
int vfx_close(int fd);
struct tm* vfx_localtime_r(const time_t* t, struct tm* out);
void vfx_perror(const char* s);
#ifdef __cplusplus
}
#endif
#define write vfx_write
#define read vfx_read
#define close vfx_close
#define localtime_r vfx_localtime_r
#define perror vfx_perror
