#pragma once
// "Fs-API world" (level A): the cgroup file system as seen through Oomd::Fs, over a small fixed name skeleton with
// symbolic existence / identity / statistics / pids. Fs.cpp itself is NOT linked in harnesses that use this world
// (its parsers and syscalls are the subject of the level-B harnesses); everything above Fs is the real code.
#include "prelude.h"
#include "oomd/util/Fs.h"
namespace vfw {
#ifndef VFW_MAXN
#define VFW_MAXN 6
#endif
#ifndef VFW_MAXPIDS
#define VFW_MAXPIDS 3
#endif
struct Node {
  const char* rel;      // relative path, "" = root
  const char* name;     // last component
  int parent;           // index, -1 for root
  int depth;
  bool exists;
  int gen;              // incarnation (bumped on re-creation): identity = (index, gen)
  // control files; avail bit i (see F_*) = file readable
  unsigned avail;
  int64_t cur, low, min, high, max, hightmp, swapcur, swapmax, nr_dying, pids_current;
  bool populated, oom_group;
  unsigned xattrs;      // bit0 trusted.oomd_prefer, bit1 user.oomd_prefer, bit2 trusted.oomd_avoid, bit3 user.oomd_avoid, bit4 the ruleset xattr_filter tag
  float psi[2][2][3];   // [mem/io][some/full][10/60/300]
  int64_t anon, file, shmem, pgscan; bool has_pgscan;
  int64_t io[6];        // rbytes wbytes rios wios dbytes dios of the single modelled device
  int npids; int pids[VFW_MAXPIDS];
  int64_t x_ooms[2], x_kill[2]; int x_uuid[2]; bool x_has_ooms[2], x_has_kill[2];   // [trusted,user] accounting xattrs
  bool dtype_known;
};
enum { F_CUR = 0, F_LOW, F_MIN, F_HIGH, F_MAX, F_HIGHTMP, F_SWAPCUR, F_SWAPMAX, F_STAT, F_CGSTAT, F_EVENTS, F_OOMGROUP, F_MEMPSI, F_IOPSI, F_IOSTAT, F_PROCS, F_PIDSCUR, F_FREEZE, F_KILL, F_RECLAIM, F_CONTROLLERS, F_XATTR, F_NFILES };
extern Node nodes[VFW_MAXN];
extern int nnodes;
extern const char* fsroot;     // e.g. "/c"
extern int fsroot_len;
extern int64_t meminfo_memtotal, meminfo_swaptotal, meminfo_swapfree;
extern bool meminfo_ok;
int add(const char* rel, const char* name, int parent);   // returns index
int find_abs(const std::string& abs);                     // index or -1 (existence not checked)
int node_of_fd(int fd);                                    // index if fd is a live dir fd of a live incarnation, else -1
int fd_of(int node);
bool fnmatch1(const char* pat, const char* s);
void remove_node(int n);      // also removes descendants
void recreate_node(int n);    // new incarnation, same name
extern int access_count;      // number of Fs accesses so far (fault points)
extern int fault_at, fault_kind, fault_node;   // when access_count reaches fault_at: kind 1 remove, 2 remove+recreate
void set_all_avail(int n);
}
