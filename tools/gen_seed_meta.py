#!/usr/bin/env python3
"""Writes seeded/<id>/meta.json from the table below (what each seeded change breaks, what it needs in order to manifest,
what was run against it and with which outcome) plus seeded/<id>/confirm.log (written by tools/confirm_seeds.sh)."""
import json, os
V = os.path.dirname(os.path.dirname(os.path.abspath(__file__)))
ORIGIN = 'fresh sub-agent that was given only the text of the property and a scratch git worktree of /repo (nothing from /verif)'
T = {
 'C01_a': dict(prop='C01', breaks='getAndTryToKillPids keeps its pid batch in a plugin member that is never cleared after the last partial batch: the next call (another victim) signals the previous cgroup\'s pids again',
               needs='a first candidate all of whose kill(2) calls fail (or a second invocation of the same plugin object) so that a different cgroup becomes the victim while pids of the previous one are still in the batch; pid count not a multiple of 20; not kernelkill'),
 'C02_a': dict(prop='C02', breaks='Ruleset::run_action_chain saves the suspended chain only when engine logs are not silenced: with silence-logs=engine an ASYNC_PAUSED action is never resumed',
               needs='silence_logs containing engine and an action returning ASYNC_PAUSED'),
 'C03_a': dict(prop='C03', breaks='Fs::readKillPreferenceAt probes trusted.oomd_avoid before user.oomd_prefer (table-driven rewrite): a cgroup with both marks reads AVOID',
               needs='a cgroup carrying trusted.oomd_avoid and user.oomd_prefer but not trusted.oomd_prefer'),
 'C04_a': dict(prop='C04', breaks='dry tryToKillCgroup returns the number of pids in the victim\'s own cgroup.procs instead of "selected": 0 pids makes the dry run treat the victim as a failed kill and move on',
               needs='dry=true and a populated victim whose own cgroup.procs is empty (processes only in descendants) that is not descended into'),
 'C05_a': dict(prop='C05', breaks='run_action_chain leaves plugin_overrode_post_action_delay_ set after a STOP whose plugin armed the pause: the next STOP by an action without own delay does not arm the ruleset delay',
               needs='two STOPs in one ruleset: first by an action with plugin-level post_action_delay, later one by an action without'),
 'C06_a': dict(prop='C06', breaks='the saved ActionContext is restored on resume only if no detector group fired in that tick: a resumed async action sees a fresh context',
               needs='an ASYNC_PAUSED chain and a detector group firing in the tick it is resumed'),
 'C08_a': dict(prop='C08', breaks='memory_above restarts its duration clock at the last non-exceeding sample instead of clearing it',
               needs='a non-exceeding sample followed by exceeding samples, first exceeding tick within `duration` of the non-exceeding one'),
 'C10_a': dict(prop='C10', breaks='Fs::readMemoryOomGroupAt compares (*lines)[0] instead of the whole vector: an empty memory.oom.group indexes an empty vector', needs='an empty (zero byte) memory.oom.group', note='the sub-agent was pointed at the Fs.cpp leaf readers, the part of C10 that is claimed'),
 'C15_a': dict(prop='C15', breaks='readMinMaxLowHighFromLines clamps every value with more than digits10 (18) characters to INT64_MAX', needs='memory.min/low/high/max or swap.max holding a 19-digit value below INT64_MAX', note='the sub-agent was pointed at the Fs.cpp leaf readers, the part of C15 that is claimed'),
 'C19_a': dict(prop='C19', breaks='processMsg sends an early reply for an empty request and then falls through to the normal reply: two JSON documents on one connection', needs='a request whose first byte is a terminator, or a client that half-closes before sending', note='the sub-agent was pointed at the per-connection protocol handling, the part of C19 that is claimed'),
 'C08_b': dict(prop='C08', breaks='memory_reclaim updates its remembered pgscan sum only when the sum grew: after a watched cgroup disappears the stale high-water mark hides later growth', needs='several matching cgroups, one disappears, the survivors then grow by less than the vanished one had contributed'),
 'C13_b': dict(prop='C13', breaks='Engine::addDropInConfig tries every ruleset and rolls back once at the end, but no longer returns before installing the prekill hooks: a refused unit leaves its hooks behind', needs='a unit that the engine itself refuses (unknown target reaching the engine, i.e. compiled against a different root) and that carries a prekill hook'),
 'C11_a': dict(prop='C11', breaks='cgroups filtered out by xattr_filter are remembered and not re-probed while they keep existing: a cgroup tagged later is never evaluated',
               needs='ruleset cgroup with xattr_filter; a cgroup untagged at one tick and tagged at a later one without disappearing in between', note='patch rebased onto the later fix: commits (same change)'),
 'C12_a': dict(prop='C12', breaks='parseSize overflow guard compares <= double(INT64_MAX) (== 2^63): a total of exactly 2^63 is accepted and wraps to INT64_MIN',
               needs='a size string whose value is exactly 2^63, e.g. 8388608T'),
 'C13_a': dict(prop='C13', breaks='Engine::removeDropInConfig uses an unstable partition: the relative order of the remaining drop-ins of a base can change',
               needs='at least three drop-ins on one base and removal of one that is not the oldest'),
 'C16_a': dict(prop='C16', breaks='hasDescendantWithPrefixMatching short-cuts patterns without * to a string prefix test: ab matches pattern a',
               needs='pattern without *, path and pattern where one is a string prefix of the other ending inside a component'),
 'C17_a': dict(prop='C17', breaks='reportKill{Initiation,Completion}ToXattr read the previous value from the trusted. xattr only and write the result to both',
               needs='pre-existing user. counter different from the trusted. one'),
 'C20_a': dict(prop='C20', breaks='debugLog capacity test rewritten as curSize > maxSize - size: wraps for a line longer than the cap, which is then always accepted',
               needs='a single log line longer than the whole backlog cap (1 MiB)'),
}
# what was run against each seed with the machinery of /verif and the outcome (filled in by hand after each run)
RUNS = json.load(open(os.path.join(V, 'seeded', 'runs.json'))) if os.path.exists(os.path.join(V, 'seeded', 'runs.json')) else {}
for sid, t in sorted(T.items()):
    d = os.path.join(V, 'seeded', sid)
    if not os.path.isdir(d):
        continue
    conf = open(os.path.join(d, 'confirm.log')).read().strip().splitlines() if os.path.exists(os.path.join(d, 'confirm.log')) else []
    meta = dict(id=sid, property=t['prop'], breaks=t['breaks'], needs_to_manifest=t['needs'], origin=ORIGIN,
                confirmed_in_scratch_worktree=conf, demonstration=[f for f in sorted(os.listdir(d)) if f.endswith(('.cpp', '.sh', '.log')) and f != 'confirm.log'],
                ran=RUNS.get(sid, []))
    if 'note' in t:
        meta['note'] = t['note']
    json.dump(meta, open(os.path.join(d, 'meta.json'), 'w'), indent=1)
print('wrote', len(T))
