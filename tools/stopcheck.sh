#!/bin/sh
# stop a running check for property $1 (driver and its cbmc children)
for p in $(pgrep -f "vfcheck.p[y] $1"); do pkill -P $p; kill $p; done
