#!/bin/sh
# usage: seedtest.sh <seed dir> <property> [extra check args]: apply the seeded change to /repo, run the check, undo.
sd=$1; prop=$2; shift 2
cd /repo && git status --short | grep -q . && { echo "repo dirty"; exit 9; }
git -C /repo apply "$sd/patch.diff" || exit 8
cd /verif && ./check $prop "$@" > /tmp/seedtest_$(basename $sd)_$prop.out 2>&1
rc=$?
git -C /repo checkout -- .
echo "seed $(basename $sd) property $prop exit=$rc"
grep -n "VIOLATION\|BROKEN\|RESULT" /tmp/seedtest_$(basename $sd)_$prop.out | cut -c1-300
