#!/bin/sh
# runs every claimed check of the given tier (default quick) in sequence and prints one line per property
tier=${1:-quick}; jobs=${2:-8}
cd /verif
for p in $(python3 -c "import claims; print(' '.join(claims.CLAIMED))"); do
  t0=$(date +%s)
  ./check $p --tier $tier --jobs $jobs > /tmp/runall_${tier}_$p.out 2>&1
  rc=$?
  echo "$p tier=$tier exit=$rc wall=$(( $(date +%s) - t0 ))s $(grep -c '^VIOLATION' /tmp/runall_${tier}_$p.out) violations $(grep -c '^BROKEN' /tmp/runall_${tier}_$p.out) broken"
done
