#!/bin/sh
# kill cbmc processes whose command line contains $1 (all cbmc if no argument)
for p in $(pgrep -x cbmc); do
  if [ -z "$1" ] || tr '\0' ' ' < /proc/$p/cmdline | grep -q -- "$1"; then kill $p; fi
done
