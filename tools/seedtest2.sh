#!/bin/sh
# usage: seedtest2.sh <seed id> <property> [extra check args]
# Runs a check against a scratch worktree of /repo (current HEAD) with the seeded change applied, without touching /repo,
# build/, evidence/ or replays/ (driver scratch mode VF_REPO + VF_TAG). Output: /tmp/seedtest_<seed>_<prop>.out;
# replays of reported violations are copied to seeded/<seed>/replays/. The worktree and scratch build are removed.
seed=$1; prop=$2; shift 2
sd=/verif/seeded/$seed; wt=/tmp/seedwt_${seed}_$prop; tag=${seed}_$prop
git -C /repo worktree remove --force $wt >/dev/null 2>&1
git -C /repo worktree add --detach $wt HEAD >/dev/null 2>&1 || { echo "worktree failed"; exit 9; }
git -C $wt apply $sd/patch.diff || { echo "patch does not apply"; git -C /repo worktree remove --force $wt; exit 8; }
cd /verif && VF_REPO=$wt VF_TAG=$tag ./check $prop "$@" > /tmp/seedtest_${seed}_$prop.out 2>&1
rc=$?
mkdir -p $sd/replays
for f in /verif/build/tag-$tag/replays/*.json; do [ -f "$f" ] && cp "$f" $sd/replays/; done
git -C /repo worktree remove --force $wt
rm -rf /verif/build/tag-$tag
echo "seed $seed property $prop exit=$rc"
grep "VIOLATION\|BROKEN\|RESULT" /tmp/seedtest_${seed}_$prop.out | cut -c1-300
