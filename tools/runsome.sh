#!/bin/sh
# usage: runsome.sh <tier> <jobs> <prop>...   (sequential; one summary line per property)
tier=$1; jobs=$2; shift 2
cd /verif
for p in "$@"; do
  t0=$(date +%s)
  ./check $p --tier $tier --jobs $jobs > /tmp/runall_${tier}_$p.out 2>&1
  rc=$?
  echo "$p tier=$tier exit=$rc wall=$(( $(date +%s) - t0 ))s $(grep -c '^VIOLATION' /tmp/runall_${tier}_$p.out) violations $(grep -c '^BROKEN' /tmp/runall_${tier}_$p.out) broken"
done
