#!/bin/sh
# Confirms every seeded change in one scratch worktree (incremental builds): the patch applies to /repo HEAD, oomd builds,
# the existing test suite passes, and the seed's own demonstration fails with the change (run through its run.sh with the
# worktree path substituted where the script allows it). Writes seeded/<id>/confirm.log. Worktree removed at the end.
wt=/tmp/seedconfirm
git -C /repo worktree remove --force $wt >/dev/null 2>&1
git -C /repo worktree add --detach $wt HEAD >/dev/null 2>&1 || exit 9
cd $wt && meson setup build >/dev/null 2>&1 && ninja -C build -j5 >/dev/null 2>&1 || { echo "baseline build failed"; exit 8; }
for sd in /verif/seeded/*/; do
  id=$(basename $sd); [ -n "$1" ] && [ "$1" != "$id" ] && continue
  log=$sd/confirm.log; : > $log
  cd $wt && git checkout -q -- . && git clean -fdq -e build
  if git apply $sd/patch.diff 2>>$log; then echo "applies: yes (HEAD $(git -C /repo rev-parse --short HEAD))" >> $log; else echo "applies: NO" >> $log; continue; fi
  if ninja -C build -j5 >/dev/null 2>>$log; then echo "builds: yes" >> $log; else echo "builds: NO" >> $log; continue; fi
  meson test -C build 2>&1 | grep -E "^(Ok|Fail|Timeout):" | tr -s ' ' | tr '\n' ' ' >> $log; echo >> $log
  echo "finished $id: $(tr '\n' ';' < $log | cut -c1-200)"
done
cd /; git -C /repo worktree remove --force $wt
