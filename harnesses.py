"""Registry of harnesses: which real oomd sources are encoded, with which bounds, for which property."""

ENGINE_OOMD = [('util/Util.cpp', ['-DgenerateUuid=vf_unused_generateUuid']), 'engine/Ruleset.cpp', 'engine/DetectorGroup.cpp', 'engine/Engine.cpp', 'OomdContext.cpp',
               'include/CgroupPath.cpp', 'util/PluginArgParser.cpp', 'PluginRegistry.cpp', 'PluginConstructionContext.cpp', 'CgroupContext.cpp']
ENGINE_ENV = ['harness/common/scripted.cpp', 'env/stats_stub.cpp', 'env/uuid_stub.cpp']

H = {}

H['engine'] = dict(
    props=['C02', 'C05', 'C06'], dir='harness/engine',
    oomd=ENGINE_OOMD, cxx=['h_engine.cpp', 'env/fs_unreachable.cpp'] + ENGINE_ENV, c=['main_engine.c'],
    defs={'VSTL_STR_CAP': 8, 'VSTL_VEC_MAX': 4, 'VSTL_MAP_MAX': 4, 'VF_CFG_N': 12},
    unwind=9, timeout=900,
    functions=['Oomd::Engine::Engine::', 'Oomd::Engine::Ruleset::', 'Oomd::Engine::DetectorGroup::', 'Oomd::OomdContext::'],
    variants={
        'quick': [
            dict(name='t2r1', defs={'H_T': 2, 'H_MAXR': 1, 'H_MAXG': 2, 'H_MAXD': 2, 'H_MAXA': 2}, props=['C02', 'C06']),
            dict(name='t1r2', defs={'H_T': 1, 'H_MAXR': 2, 'H_MAXG': 2, 'H_MAXD': 2, 'H_MAXA': 2}, props=['C02'], reach_optional=True),
            dict(name='t3r1s', defs={'H_T': 3, 'H_MAXR': 1, 'H_MAXG': 1, 'H_MAXD': 1, 'H_MAXA': 2}, props=['C06', 'C05']),
            dict(name='ov_t3r1', defs={'H_T': 3, 'H_MAXR': 1, 'H_MAXG': 1, 'H_MAXD': 1, 'H_MAXA': 2, 'FEAT_OVERRIDE': 1}, props=['C05']),
            dict(name='ov_t2r2', defs={'H_T': 2, 'H_MAXR': 2, 'H_MAXG': 1, 'H_MAXD': 1, 'H_MAXA': 1, 'FEAT_OVERRIDE': 1}, props=['C05']),
        ],
        'thorough': [
            dict(name='t3r1', defs={'H_T': 3, 'H_MAXR': 1, 'H_MAXG': 2, 'H_MAXD': 2, 'H_MAXA': 3}, timeout=6000, props=['C02', 'C06']),
            dict(name='t2r2', defs={'H_T': 2, 'H_MAXR': 2, 'H_MAXG': 2, 'H_MAXD': 2, 'H_MAXA': 2}, timeout=6000, props=['C02', 'C06']),
            dict(name='t4r1s', defs={'H_T': 4, 'H_MAXR': 1, 'H_MAXG': 1, 'H_MAXD': 1, 'H_MAXA': 2}, timeout=6000, props=['C06', 'C05']),
            dict(name='ov_t4r1', defs={'H_T': 4, 'H_MAXR': 1, 'H_MAXG': 1, 'H_MAXD': 1, 'H_MAXA': 2, 'FEAT_OVERRIDE': 1}, timeout=6000, props=['C05']),
        ],
    },
)

H['rcg'] = dict(
    props=['C11'], dir='harness/rcg', diff_unordered=True,   # iteration order of unordered containers differs between vstl and libstdc++; the oracle is order-insensitive across cgroups
    oomd=ENGINE_OOMD, cxx=['h_rcg.cpp', 'env/world.cpp'] + ENGINE_ENV, c=['main_rcg.c'],
    defs={'VSTL_STR_CAP': 8, 'VSTL_VEC_MAX': 4, 'VSTL_MAP_MAX': 4, 'VF_ACT_ADV_MAX_S': 0, 'VFW_MAXN': 4},
    unwind=9, unwind_big=26, timeout=900,
    functions=['Oomd::Engine::Ruleset::', 'Oomd::Engine::DetectorGroup::', 'Oomd::OomdContext::', 'Oomd::CgroupPath::'],
    variants={
        'quick': [dict(name='t2c2_live%02d' % m, defs={'H_T': 2, 'H_NC': 2, 'H_D': 1, 'H_A': 1, 'H_LIVE': m, 'H_FILTER': 0}, reach_optional=True) for m in range(1, 16)]
                 + [dict(name='t2c2_tag%02d' % m, defs={'H_T': 2, 'H_NC': 2, 'H_D': 1, 'H_A': 1, 'H_LIVE': m, 'H_FILTER': 1}, reach_optional=True) for m in (4, 6, 13)],
        'thorough': [dict(name='t3c2_live%02d' % m, defs={'H_T': 3, 'H_NC': 2, 'H_D': 1, 'H_A': 2, 'H_LIVE': m, 'H_FILTER': 0}, reach_optional=True, timeout=3000) for m in range(1, 63)]   # (live63 - both cgroups alive at all three ticks - does not finish within 50 min: not part of the tier; its two-tick counterpart live15 is in the quick tier)
                    + [dict(name='t3c2_tag%02d' % m, defs={'H_T': 3, 'H_NC': 2, 'H_D': 1, 'H_A': 2, 'H_LIVE': m, 'H_FILTER': 1}, reach_optional=True, timeout=3000) for m in (21, 42, 27, 45, 51)],
    },
)

def _tpl(t, mode, timeout=900):
    # template variant of the size-parser harness (see h_parsesize.cpp); string capacity follows the template length
    return dict(name='%s_%s' % ('size' if mode == 0 else 'pct', t.replace('.', 'P').replace('-', 'N')), defs={'H_LEN': len(t), 'H_MODE': mode, 'H_TPL': '"%s"' % t, 'VSTL_STR_CAP': max(8, len(t) + 4)}, unwind=max(9, len(t) + 5), timeout=timeout)


H['parsesize'] = dict(
    props=['C12'], dir='harness/parse',
    oomd=['util/Util.cpp'], cxx=['h_parsesize.cpp'], c=['main_parsesize.c'],
    defs={'VSTL_STR_CAP': 8, 'VSTL_VEC_MAX': 4, 'VSTL_MAP_MAX': 4},
    unwind=9, timeout=600,
    functions=['Oomd::Util::parseSize', 'Oomd::Util::parseSizeOrPercent'],
    variants={
        'quick': [dict(name='size_l%d' % l, defs={'H_LEN': l, 'H_MODE': 0}) for l in (1, 2, 3)] + [dict(name='pct_l%d' % l, defs={'H_LEN': l, 'H_MODE': 1}) for l in (2, 3)]
                 + [_tpl('DDDDDDDU', 0)],
        'thorough': [dict(name='size_l%d' % l, defs={'H_LEN': l, 'H_MODE': 0}, timeout=2400) for l in (1, 2, 3, 4, 5)] + [dict(name='pct_l%d' % l, defs={'H_LEN': l, 'H_MODE': 1}, timeout=2400) for l in (2, 3, 4)]
                    + [_tpl('DDDDDDDU', 0, 3600), _tpl('DDDDDDDU', 1, 3600)],   # (10 digits and more, and the fraction / sign templates: no verdict within 40 min)
    },
)

def _op(kind, tag=0, target=0, content=0, hook=0):
    return kind | (tag << 1) | (target << 3) | (content << 6) | (hook << 8)


A, R = 0, 1
# (name, [ops]) ; add = _op(A, tag, target(0 r0,1 r1,2 unknown,3 r0+r1,4 r0+unknown), content(1 dgs,2 acts,3 both), hook)
DROPIN_SEQS_QUICK = [
    ('add_add_same_base', [_op(A, 0, 0, 3), _op(A, 1, 0, 2)]),
    ('add_remove', [_op(A, 0, 0, 1), _op(R, 0)]),
    ('two_ruleset_file_remove', [_op(A, 0, 3, 3), _op(R, 0)]),
    ('readd_other_base', [_op(A, 0, 0, 3), _op(A, 0, 1, 3)]),
    ('unknown_target', [_op(A, 0, 2, 3), _op(A, 1, 1, 1)]),
    ('partial_unknown', [_op(A, 0, 4, 3), _op(A, 0, 0, 2)]),
    ('three_then_remove_newest', [_op(A, 0, 0, 3), _op(A, 1, 0, 3), _op(A, 2, 0, 3), _op(R, 2)]),
    ('three_then_remove_middle', [_op(A, 0, 0, 2), _op(A, 1, 0, 2), _op(A, 2, 0, 1), _op(R, 1)]),
    ('hooks_newest_first', [_op(A, 0, 0, 3, 1), _op(A, 1, 1, 3, 1), _op(R, 0)]),
    ('readd_moves_front', [_op(A, 0, 0, 3), _op(A, 1, 0, 3), _op(A, 0, 0, 3)]),
    ('remove_absent_then_add', [_op(R, 1), _op(A, 1, 3, 2)]),
    ('engine_refuses_with_hook', [_op(A, 0, 5, 3, 1), _op(A, 1, 0, 3, 0)]),
    ('engine_refuses_second_ruleset', [_op(A, 0, 6, 3, 1), _op(A, 1, 1, 3, 0)]),
]
DROPIN_SEQS_MORE = [
    ('four_then_remove_second', [_op(A, 0, 0, 3), _op(A, 1, 0, 3), _op(A, 2, 0, 3), _op(A, 3, 0, 3), _op(R, 2)]),
    ('two_file_then_other_then_remove', [_op(A, 0, 3, 3), _op(A, 1, 0, 3), _op(R, 1), _op(R, 0)]),
    ('hooks_readd', [_op(A, 0, 0, 3, 1), _op(A, 1, 0, 3, 1), _op(A, 0, 1, 3, 1), _op(R, 1)]),
    ('refused_readd_keeps_old', [_op(A, 0, 0, 3), _op(A, 0, 2, 3), _op(A, 1, 0, 3)]),
]


# drop-in permissions (bit0 disable-on-drop-in, bit1 detectors may be replaced, bit2 actions may be replaced) of base r0, r1
DROPIN_FLAGS_QUICK = [(7, 7), (6, 3), (5, 6)]
DROPIN_FLAGS_ALL = [(7, 7), (6, 3), (5, 6), (0, 7), (1, 1), (2, 4), (4, 2), (3, 5)]


DROPIN_QUICK_PLAN = {'readd_other_base': (6, 3), 'unknown_target': (6, 3), 'hooks_newest_first': (6, 3), 'engine_refuses_second_ruleset': (6, 3),
                     'add_remove': (5, 6), 'partial_unknown': (5, 6), 'remove_absent_then_add': (5, 6), 'readd_moves_front': (5, 6)}


def _dropin_variants(seqs, flags, timeout):
    return [dict(name='%s_f%d%d' % (n, f0, f1), defs={'H_K': len(ops), 'H_OPS': '{' + ','.join(str(o) for o in ops) + '}', 'H_FLAGS': '{%d,%d}' % (f0, f1), 'H_MAXTARGET': 6, 'H_HOOKS': 1}, unwind=max(11, 2 * len(ops) + 3), reach_optional=True, timeout=timeout)
            for n, ops in seqs for (f0, f1) in flags]


H['dropin'] = dict(
    props=['C13'], dir='harness/dropin',
    oomd=ENGINE_OOMD + ['config/ConfigCompiler.cpp', 'dropin/DropInServiceAdaptor.cpp'], cxx=['h_dropin.cpp', 'env/fs_unreachable.cpp'] + ENGINE_ENV, c=['main_dropin.c'],
    defs={'VSTL_STR_CAP': 8, 'VSTL_VEC_MAX': 4, 'VSTL_MAP_MAX': 8, 'VF_ACT_ADV_MAX_S': 0, 'VF_RET_MAX': 1},
    unwind=11, timeout=1200,   # oracle loop over 2*H_K+1 entries (H_K <= 4) + string capacity 8
    functions=['Oomd::Engine::Engine::', 'Oomd::Engine::Ruleset::mergeWithDropIn', 'Oomd::Engine::Ruleset::markDropIn', 'Oomd::Config2::compile', 'Oomd::DropInServiceAdaptor::', 'compileRuleset'],
    variants={
        # quick tier: every sequence once, the three permission sets spread over the sequences (the full cross product - and
        # three_then_remove_middle - is in the thorough tier): the check has to stay well below 15 minutes on a loaded machine
        'quick': [v for (n, ops) in DROPIN_SEQS_QUICK if n != 'three_then_remove_middle' for v in _dropin_variants([(n, ops)], [DROPIN_QUICK_PLAN.get(n, (7, 7))], 1500)],
        # (the five-operation sequence and the engine-refusal sequences were run to a verdict with the three quick permission sets only)
        'thorough': _dropin_variants([x for x in DROPIN_SEQS_QUICK if not x[0].startswith('engine_refuses')] + [x for x in DROPIN_SEQS_MORE if x[0] != 'four_then_remove_second'], DROPIN_FLAGS_ALL, 3000)
                    + _dropin_variants([x for x in DROPIN_SEQS_QUICK if x[0].startswith('engine_refuses')] + [x for x in DROPIN_SEQS_MORE if x[0] == 'four_then_remove_second'], DROPIN_FLAGS_QUICK, 3600),
    },
)

# Attempted, NOT part of any claim (property id C12x is not in MANIFEST.json): Config2::compile with symbolic post_action_delay /
# prekill_hook_timeout strings. The error path (std::stoi throwing out of compileRuleset) unwinds through the destructors of the
# half-built configuration and did not finish symbolic execution in 10 minutes. Run with: ./check C12x --only cfgc
H['cfgc'] = dict(
    props=['C12x'], dir='harness/cfgc',
    oomd=ENGINE_OOMD + ['config/ConfigCompiler.cpp'], cxx=['h_cfgc.cpp', 'env/fs_unreachable.cpp'] + ENGINE_ENV, c=['main_cfgc.c'],
    defs={'VSTL_STR_CAP': 8, 'VSTL_VEC_MAX': 4, 'VSTL_MAP_MAX': 8, 'VF_ACT_ADV_MAX_S': 0, 'VF_RET_MAX': 1},
    unwind=11, timeout=1200,
    functions=['Oomd::Config2::compile', 'compileRuleset', 'compileDetectorGroup', 'compilePlugin'],
    variants={
        'quick': [dict(name='delay_l%d' % l, defs={'H_LEN': l, 'H_FIELD': 0}, reach_optional=True) for l in (0, 1, 2)] + [dict(name='hooktimeout_l2', defs={'H_LEN': 2, 'H_FIELD': 1}, reach_optional=True)],
        'thorough': [dict(name='delay_l3', defs={'H_LEN': 3, 'H_FIELD': 0}, reach_optional=True, timeout=3000), dict(name='hooktimeout_l3', defs={'H_LEN': 3, 'H_FIELD': 1}, reach_optional=True, timeout=3000)],
    },
)

NOREG = ['-include', 'noreg.h']
DET_NAMES = {1: 'pressure_above', 2: 'pressure_rising_beyond', 3: 'memory_above', 4: 'memory_reclaim', 5: 'swap_free', 6: 'exists', 7: 'nr_dying_descendants'}
_DT = {1: 1, 2: 1, 3: 3, 4: 3, 5: 1, 6: 1, 7: 1}   # ticks per detector in the quick tier (float-heavy pressure detectors: 1)
H['detect'] = dict(
    props=['C08'], dir='harness/detect', solvers=['kissat'],
    oomd=[('plugins/PressureAbove.cpp', NOREG), ('plugins/PressureRisingBeyond.cpp', NOREG), ('plugins/MemoryAbove.cpp', NOREG), ('plugins/MemoryReclaim.cpp', NOREG),
          ('plugins/SwapFree.cpp', NOREG), ('plugins/Exists.cpp', NOREG), ('plugins/NrDyingDescendants.cpp', NOREG),
          'util/Util.cpp', 'OomdContext.cpp', 'include/CgroupPath.cpp', 'util/PluginArgParser.cpp', 'PluginRegistry.cpp', 'PluginConstructionContext.cpp', 'CgroupContext.cpp'],
    cxx=['h_detect.cpp', 'env/world.cpp'], c=['main_detect.c'],
    defs={'VSTL_STR_CAP': 8, 'VSTL_VEC_MAX': 4, 'VSTL_MAP_MAX': 4, 'VFW_MAXN': 3, 'VF_CFG_N': 8},
    unwind=9, timeout=1200,
    functions=['Oomd::PressureAbove::run', 'Oomd::PressureRisingBeyond::run', 'Oomd::MemoryAbove::run', 'Oomd::MemoryReclaim::run', 'Oomd::SwapFree::run', 'Oomd::Exists::run', 'Oomd::NrDyingDescendants::run', 'Oomd::OomdContext::', 'Oomd::CgroupContext::'],
    variants={
        'quick': [dict(name='%s_t%d_p%d_x%x' % (DET_NAMES[d], _DT[d], pt, m), defs={'H_DET': d, 'H_T': _DT[d], 'H_PAT': pt, 'H_EXMASK': m}, reach_optional=True)
                  for d in range(3, 8) for (pt, m) in (((1, 0x3f),) if d == 5 else ((1, 0x3f), (2, 0x36)))],   # pressure_above / pressure_rising_beyond (d=1,2): no verdict within budget, see DESIGN.md 10
        'thorough': [dict(name='%s_t%d_p%d_x%x' % (DET_NAMES[d], 2 if d >= 5 else 4, pt, m), defs={'H_DET': d, 'H_T': 2 if d >= 5 else 4, 'H_PAT': pt, 'H_EXMASK': m, 'H_SWAPBITS': 36}, reach_optional=True, timeout=3000)
                     for d in range(3, 8) for (pt, m) in (((1, 0xff),) if d == 5 else ((1, 0xff), (2, 0xff), (1, 0xdb), (2, 0x6d), (0, 0xd7), (1, 0x3c), (2, 0xc3)))],
    },
)

def _path_variants(lens, len2s, timeout, laws=(1, 2, 3, 4, 5, 6)):
    out = []
    for law in laws:
        for l in lens:
            for l2 in (len2s if law in (2, 3, 4, 5) else (0,)):
                if law == 6 and l == 0:
                    continue
                # string capacity: "/c/" + path [+ "/" + second string] + NUL + one spare (symbolic-length string loops cost capacity^2)
                cap = max(6, 3 + l + (1 + l2 if law in (2, 5) else 0) + 2, 3 + l2 + 2)
                out.append(dict(name='law%d_l%d_%d' % (law, l, l2), defs={'H_LAW': law, 'H_LEN': l, 'H_LEN2': l2, 'VSTL_STR_CAP': cap}, unwind=max(cap + 1, 8), reach_optional=True, timeout=timeout))
    return out


H['path'] = dict(
    props=['C16'], dir='harness/path',
    oomd=['include/CgroupPath.cpp', 'util/Util.cpp', 'util/PluginArgParser.cpp', 'PluginConstructionContext.cpp'], cxx=['h_path.cpp'], c=['main_path.c'],
    defs={'VSTL_STR_CAP': 12, 'VSTL_VEC_MAX': 6, 'VSTL_MAP_MAX': 6},
    unwind=13, timeout=600,
    functions=['Oomd::CgroupPath::', 'Oomd::Util::split', 'Oomd::PluginArgParser::parseCgroup', 'std::hash<Oomd::CgroupPath>'],
    variants={
        # laws 5 (resolveWildcard over an arbitrary glob result) and 6 (comma-separated cgroup argument) do not reach a verdict
        # within the budget (solver memory); they are kept in the thorough tier only and are not part of the claim
        'quick': _path_variants((0, 1, 2, 3), (1, 2), 900, laws=(1, 3, 4)) + _path_variants((0, 1, 2), (1, 2), 900, laws=(2,)),
        'thorough': _path_variants((0, 1, 2, 3, 4), (1, 2, 3), 3000, laws=(1, 2, 3, 4)),
    },
)

FSRD = ['-include', 'libc_redirect_fs.h']
FS_FN = {1: 'kill_preference', 2: 'memory_current', 3: 'memory_high', 4: 'swap_current', 5: 'pids_current', 6: 'memory_max', 7: 'memory_min', 8: 'memory_low', 9: 'swap_max', 10: 'memory_high_tmp', 11: 'cgroup_events', 12: 'oom_group'}


def _fs_variant(fn, tpl, timeout=900):
    n = len(tpl)
    return dict(name='%s_%s' % (FS_FN[fn], tpl.replace(' ', '_') or 'empty'), props=(['C03', 'C15', 'C10'] if fn == 1 else ['C15', 'C10']), defs={'H_FN': fn, 'H_LEN': n, 'H_TPL': '"%s"' % tpl, 'VSTL_STR_CAP': max(24, n + 2)}, unwind=max(9, n + 3), reach_optional=True, timeout=timeout)


H['fsleaf'] = dict(
    props=['C15', 'C10', 'C03'], dir='harness/fsleaf', keep=['vfx_fsk_openat'],
    oomd=[('util/Fs.cpp', FSRD), 'util/Util.cpp'], cxx=['h_fsleaf.cpp'], c=['main_fsleaf.c', 'env/fs_libc_stubs.c'],
    defs={'VSTL_STR_CAP': 8, 'VSTL_VEC_MAX': 6, 'VSTL_MAP_MAX': 4},
    unwind=9, unwind_big=26, timeout=900,
    functions=['Oomd::Fs::read', 'Oomd::Fs::hasxattrAt', 'Oomd::Fs::Fd::'],
    variants={
        'quick': [_fs_variant(1, '')] + [_fs_variant(fn, t) for fn in (2, 3, 4, 5, 10) for t in ('', 'AAA')] + [_fs_variant(fn, 'AAAA') for fn in (6, 7, 8, 9)]
                 + [_fs_variant(12, 'AA'), _fs_variant(12, ''), _fs_variant(2, 'DDDDDDn'), _fs_variant(6, '115292150460DDDDDDDn'), _fs_variant(2, '115292150460DDDDDDDn'), _fs_variant(9, '9DDn')],   # (cgroup.events reader, H_FN 11: no verdict within the budget, not part of the claim)
        'thorough': [_fs_variant(1, '')] + [_fs_variant(fn, t, 3000) for fn in range(2, 11) for t in ('', 'A', 'AA', 'AAA', 'AAAA', 'AAAAA', 'DDDDDDDDDn', '115292150460DDDDDDDn', '92233720368547DDDDDn') if not (fn == 10 and len(t) > 12)]
                    + [_fs_variant(12, t, 3000) for t in ('', 'A', 'AA', 'AAA')],
    },
)

KILL_OOMD = [('plugins/BaseKillPlugin.cpp', ['-include', 'libc_redirect.h', '-include', 'noreg.h']), 'plugins/DumpKillInfoNoOp.cpp', ('util/Util.cpp', ['-DgenerateUuid=vf_unused_generateUuid']),
             'engine/Ruleset.cpp', 'engine/DetectorGroup.cpp', ('OomdContext.cpp', ['-Ddump=vf_unused_dump']), 'CgroupContext.cpp', 'include/CgroupPath.cpp', 'util/PluginArgParser.cpp', 'PluginRegistry.cpp', 'PluginConstructionContext.cpp']
KILL_ENV = ['env/dump_stub.cpp', 'env/world.cpp', 'env/world_kill.cpp', 'env/stats_stub.cpp', 'env/uuid_stub.cpp', 'harness/common/scripted.cpp']
def RETRY(bound):
    # the retry loop of BaseKillPlugin::tryToKillCgroup (tries = 10; it ends as soon as a round signals nothing new): every
    # round that continues has signalled at least one process that then left cgroup.procs, so a victim subtree with P
    # processes allows at most P + 1 rounds. The bound is P + 2 and is checked by its unwinding assertion.
    return ('tryToKillCgroup', 'getAndTryToKillPids', bound)


H['kill'] = dict(
    props=['C01', 'C03', 'C04', 'C17'], dir='harness/kill',
    oomd=KILL_OOMD, cxx=['h_kill.cpp'] + KILL_ENV, c=['main_kill.c', 'env/libc_stubs.c'],
    keep=['vfk_openat', 'vfk_syscall'], object_bits=14,   # called only from the C stubs (env/libc_stubs.c)
    override_cxx=['env/kill_overrides.cpp'], override_symbols=['_ZN4Oomd14BaseKillPlugin14dumpMemoryStatERKNS_13CgroupContextE'],
    defs={'VSTL_STR_CAP': 24, 'VSTL_VEC_MAX': 4, 'VSTL_MAP_MAX': 6, 'VFW_MAXN': 5, 'VFW_MAXPIDS': 2, 'VF_CFG_N': 12},
    unwind=9, unwind_big=25, timeout=1500,
    functions=['Oomd::BaseKillPlugin::', 'Oomd::OomdContext::', 'Oomd::CgroupContext::', 'Oomd::CgroupPath::'],
    variants={
        # quick tier: unit-level variants (drive the unit, not the program): signalling, accounting, ranking.
        # The whole-plugin walk (resolve, rank, DFS with fallback, attempt, accounting calls, return value; wet/dry pair) is the
        # thorough tier: one CBMC round of it takes tens of minutes on this image.
        'quick': [
            dict(name='signal_unit_n3', defs={'H_NODES': 3, 'H_PAT': 0, 'H_NPIDS': 2, 'H_MODE': 4, 'VSTL_VEC_MAX': 20}, props=['C01', 'C17'], reach_optional=True),
            dict(name='rank_unit', defs={'H_NODES': 5, 'H_PAT': 0, 'H_NPIDS': 1, 'H_MODE': 5}, props=['C03'], reach_optional=True),
            dict(name='xattr_unit', defs={'H_NODES': 2, 'H_PAT': 0, 'H_NPIDS': 1, 'H_MODE': 3}, props=['C17'], reach_optional=True),
        ],
        'thorough': [
            dict(name='signal_unit_n3', defs={'H_NODES': 3, 'H_PAT': 0, 'H_NPIDS': 2, 'H_MODE': 4, 'VSTL_VEC_MAX': 20}, props=['C01', 'C17'], reach_optional=True),
            dict(name='rank_unit', defs={'H_NODES': 5, 'H_PAT': 0, 'H_NPIDS': 1, 'H_MODE': 5}, props=['C03'], reach_optional=True),
            dict(name='xattr_unit', defs={'H_NODES': 2, 'H_PAT': 0, 'H_NPIDS': 1, 'H_MODE': 3}, props=['C17'], reach_optional=True),
        ],
        # further walk variants (not registered in a tier: no verdict within hours on this image; kept for larger machines)
        'extra': [
            dict(name='signal_unit_n5', defs={'H_NODES': 5, 'H_PAT': 0, 'H_NPIDS': 1, 'H_MODE': 4, 'VSTL_VEC_MAX': 20}, props=['C01', 'C17'], reach_optional=True, timeout=20000),   # (victim with two child cgroups: >30 min, no verdict)
            dict(name='walk_min', loop_bounds=[RETRY(3)], defs={'H_NODES': 3, 'H_PAT': 1, 'H_NPIDS': 1, 'H_NO_KERNELKILL': 1, 'H_NO_REAP': 1}, props=['C01', 'C03', 'C17'], reach_optional=True, timeout=10800),
            dict(name='star_n3', loop_bounds=[RETRY(4)], defs={'H_NODES': 3, 'H_PAT': 1, 'H_NPIDS': 2, 'H_NO_KERNELKILL': 1}, props=['C01', 'C03', 'C17'], reach_optional=True, timeout=20000),
            dict(name='star_n3_pref', loop_bounds=[RETRY(4)], defs={'H_NODES': 3, 'H_PAT': 1, 'H_NPIDS': 2, 'H_NO_KERNELKILL': 1, 'H_CUR': '{0,2,1,0,0}', 'H_XA': '{0,4,1,0,0}'}, props=['C01', 'C03', 'C17'], reach_optional=True, timeout=20000),
            dict(name='star_n5', loop_bounds=[RETRY(5)], defs={'H_NODES': 5, 'H_PAT': 1, 'H_NPIDS': 1, 'H_NO_KERNELKILL': 1}, props=['C01', 'C03', 'C17'], reach_optional=True, timeout=20000),
            dict(name='kk_n3', loop_bounds=[RETRY(3)], defs={'H_NODES': 3, 'H_PAT': 2, 'H_NPIDS': 1, 'H_KERNELKILL': 1}, props=['C01', 'C17'], reach_optional=True, timeout=20000),
            dict(name='drywet_n3', loop_bounds=[RETRY(3)], defs={'H_NODES': 3, 'H_PAT': 1, 'H_NPIDS': 1, 'H_MODE': 1, 'H_NO_KERNELKILL': 1}, props=['C04'], reach_optional=True, timeout=20000),
            dict(name='sub_n5', loop_bounds=[RETRY(4)], defs={'H_NODES': 5, 'H_PAT': 3, 'H_NPIDS': 2, 'H_NO_KERNELKILL': 1}, props=['C01', 'C03', 'C17'], reach_optional=True, timeout=20000),
        ],
    },
)

H['rank'] = dict(
    props=['C09'], dir='harness/rank',
    oomd=KILL_OOMD + [('plugins/KillSwapUsage.cpp', NOREG)], cxx=['h_rank.cpp'] + KILL_ENV, c=['main_rank.c', 'env/libc_stubs.c'],
    keep=['vfk_openat', 'vfk_syscall'], object_bits=14,
    defs={'VSTL_STR_CAP': 24, 'VSTL_VEC_MAX': 4, 'VSTL_MAP_MAX': 12, 'VFW_MAXN': 5, 'VFW_MAXPIDS': 2, 'VF_CFG_N': 6},
    unwind=13, unwind_big=25, timeout=2400,
    functions=['Oomd::KillSwapUsage', 'Oomd::OomdContext::sortDescWithKillPrefs', 'Oomd::Util::parseSizeOrPercent', 'Oomd::BaseKillPlugin::init'],
    variants={
        'quick': [dict(name='swap_k40_s28', defs={'H_KMAX': 40, 'H_SHIFT': 28}), dict(name='swap_k5_s31', defs={'H_KMAX': 5, 'H_SHIFT': 31})],
    },
)

H['stats'] = dict(
    props=['C19'], dir='harness/stats',
    oomd=['Stats.cpp', ('util/Util.cpp', ['-Dwrite=vfx_st_write'])], cxx=['h_stats.cpp'], c=['main_stats.c', 'env/stats_libc.c'],   # (Util::writeFull's write(2) is counted in both builds)
    override_cxx=['env/stats_overrides.cpp'], override_symbols=['_ZN4Oomd5Stats11startSocketEv'],
    real_inc=['-I/usr/include/jsoncpp'], real_libs=['-ljsoncpp'],
    defs={'VSTL_STR_CAP': 8, 'VSTL_VEC_MAX': 4, 'VSTL_MAP_MAX': 4},
    unwind=9, unwind_big=36, timeout=900,
    functions=['Oomd::Stats::processMsg', 'Oomd::Stats::reset', 'Oomd::Stats::getAll', 'Oomd::Stats::set'],
    variants={
        'quick': [dict(name='session_b3', defs={'H_NB': 3})],
        'thorough': [dict(name='session_b3', defs={'H_NB': 3}), dict(name='session_b5', defs={'H_NB': 5}, timeout=3000)],
    },
)

LOGRD = ['-include', 'libc_redirect_log.h']
H['log'] = dict(
    props=['C20'], dir='harness/log', no_shadow=True,
    oomd=[('Log.cpp', LOGRD), ('util/Util.cpp', LOGRD)], cxx=['h_log.cpp', 'env/log_env.cpp'], cxx_model=['vstl/vstl_globals.cpp'], c=['main_log.c', 'env/libc_log.c'],
    defs={'VSTL_STR_CAP': 16, 'VSTL_VEC_MAX': 4, 'VSTL_MAP_MAX': 4, 'VSTL_OSTREAM_HOOK': 1},
    unwind=26, timeout=900,
    functions=['Oomd::Log::debugLog', 'Oomd::Log::ioThread', 'Oomd::Log::kmsgLog', 'Oomd::LogStream::', 'Oomd::Util::writeFull'],
    variants={
        'quick': [dict(name='step', defs={'H_MODE': 1}, reach_optional=True), dict(name='step_smallcap', defs={'H_MODE': 1, 'H_SMALLCAP': 1}), dict(name='flush', defs={'H_MODE': 2}), dict(name='kmsg', defs={'H_MODE': 3})],
    },
)


BOUNDS = {}
ASSUME = {
    '*': ['clang-14 -O1 code generation, the ll2c IR->C translator and the vstl standard-library model are faithful (checked per run by differential execution of the generated C against the g++/libstdc++ build)',
          'CBMC 6.11 and its SAT back end are sound', 'logging (OLOG) is a sink; the kmsg record and LogStream::Control are observable events (shadow oomd/Log.h)'],
}


def bounds_text(prop, tier):
    out = []
    for n, h in H.items():
        if prop in h['props']:
            for v in h.get('variants', {}).get(tier) or h.get('variants', {}).get('quick') or [{}]:
                d = dict(h.get('defs', {})); d.update(v.get('defs', {}))
                out.append('%s.%s: unwind=%s %s' % (n, v.get('name', 'v'), v.get('unwind', h.get('unwind')), ' '.join('%s=%s' % kv for kv in sorted(d.items()))))
    return out


def assumptions_text(prop):
    return ASSUME['*'] + ASSUME.get(prop, [])
