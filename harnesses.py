"""Registry of harnesses: which real oomd sources are encoded, with which bounds, for which property."""

ENGINE_OOMD = [('util/Util.cpp', ['-DgenerateUuid=vf_unused_generateUuid']), 'engine/Ruleset.cpp', 'engine/DetectorGroup.cpp', 'engine/Engine.cpp', 'OomdContext.cpp',
               'include/CgroupPath.cpp', 'util/PluginArgParser.cpp', 'PluginRegistry.cpp', 'PluginConstructionContext.cpp', 'CgroupContext.cpp']
ENGINE_ENV = ['harness/common/scripted.cpp', 'env/stats_stub.cpp', 'env/uuid_stub.cpp']

H = {}

H['engine'] = dict(
    props=['C02'], dir='harness/engine',
    oomd=ENGINE_OOMD, cxx=['h_engine.cpp', 'env/fs_unreachable.cpp'] + ENGINE_ENV, c=['main_engine.c'],
    defs={'VSTL_STR_CAP': 8, 'VSTL_VEC_MAX': 4, 'VSTL_MAP_MAX': 4, 'VF_CFG_N': 12},
    unwind=9, timeout=900,
    functions=['Oomd::Engine::Engine::', 'Oomd::Engine::Ruleset::', 'Oomd::Engine::DetectorGroup::', 'Oomd::OomdContext::'],
    variants={
        'quick': [
                  dict(name='t2r1', defs={'H_T': 2, 'H_MAXR': 1, 'H_MAXG': 2, 'H_MAXD': 2, 'H_MAXA': 2}),
],
        'thorough': [dict(name='t3', defs={'H_T': 3, 'H_MAXR': 2, 'H_MAXG': 2, 'H_MAXD': 2, 'H_MAXA': 3}, timeout=2400)],
    },
)

H['rcg'] = dict(
    props=['C11'], dir='harness/rcg',
    oomd=ENGINE_OOMD, cxx=['h_rcg.cpp', 'env/world.cpp'] + ENGINE_ENV, c=['main_rcg.c'],
    defs={'VSTL_STR_CAP': 8, 'VSTL_VEC_MAX': 4, 'VSTL_MAP_MAX': 4, 'VF_ACT_ADV_MAX_S': 0, 'VFW_MAXN': 4},
    unwind=9, timeout=900,
    functions=['Oomd::Engine::Ruleset::', 'Oomd::Engine::DetectorGroup::', 'Oomd::OomdContext::', 'Oomd::CgroupPath::'],
    variants={
        'quick': [dict(name='t2c2', defs={'H_T': 2, 'H_NC': 2, 'H_D': 1, 'H_A': 1})],
        'thorough': [dict(name='t3c2', defs={'H_T': 3, 'H_NC': 2, 'H_D': 1, 'H_A': 2}, timeout=2400)],
    },
)

H['parsesize'] = dict(
    props=['C12'], dir='harness/parse',
    oomd=['util/Util.cpp'], cxx=['h_parsesize.cpp'], c=['main_parsesize.c'],
    defs={'VSTL_STR_CAP': 8, 'VSTL_VEC_MAX': 4, 'VSTL_MAP_MAX': 4},
    unwind=9, timeout=600,
    functions=['Oomd::Util::parseSize', 'Oomd::Util::parseSizeOrPercent'],
    variants={
        'quick': [dict(name='size_l%d' % l, defs={'H_LEN': l, 'H_MODE': 0}) for l in (1, 2, 3)] + [dict(name='pct_l%d' % l, defs={'H_LEN': l, 'H_MODE': 1}) for l in (2, 3)],
        'thorough': [dict(name='size_l%d' % l, defs={'H_LEN': l, 'H_MODE': 0}, timeout=2400) for l in (1, 2, 3, 4, 5)] + [dict(name='pct_l%d' % l, defs={'H_LEN': l, 'H_MODE': 1}, timeout=2400) for l in (2, 3, 4)],
    },
)

BOUNDS = {}
ASSUME = {
    '*': ['clang-14 -O1 code generation, the ll2c IR->C translator and the vstl standard-library model are faithful (checked per run by differential execution of the generated C against the g++/libstdc++ build)',
          'CBMC 6.11 and its SAT back end are sound', 'logging (OLOG) is a sink; the kmsg record and LogStream::Control are observable events (shadow oomd/Log.h)'],
}


def bounds_text(prop, tier):
    out = []
    for n, h in H.items():
        if prop in h['props']:
            for v in h.get('variants', {}).get(tier) or h.get('variants', {}).get('quick') or [{}]:
                d = dict(h.get('defs', {})); d.update(v.get('defs', {}))
                out.append('%s.%s: unwind=%s %s' % (n, v.get('name', 'v'), v.get('unwind', h.get('unwind')), ' '.join('%s=%s' % kv for kv in sorted(d.items()))))
    return out


def assumptions_text(prop):
    return ASSUME['*'] + ASSUME.get(prop, [])
