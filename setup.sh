#!/bin/sh
# Offline setup: build the IR->C translator from source on disk. Everything else is rebuilt by each check run.
set -e
cd "$(dirname "$0")"
make -C ll2c ll2c
mkdir -p build evidence replays
echo setup-ok
