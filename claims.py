"""Per-property claim texts for MANIFEST.json; NOT_APPLICABLE lists every property that is not (yet) claimed."""
_TB = 'Trusted: clang-14 -O1 codegen, ll2c translator, vstl std-library model (differentially tested each run against g++/libstdc++), CBMC 6.11 + SAT back end, the environment models/oracles in /verif. Bounds (ticks, shapes, string/vector caps, unwind) are printed in the evidence; nothing is claimed outside them.'
CLAIMS = {
    'C02': dict(text='Bounded model checking of the real Engine/Ruleset/DetectorGroup code: for every history of plugin verdicts, delays, silence settings and clock advances within the bounds, the recorded plugin-call log equals the log of an independent reference engine (all unwinding assertions pass).', note=_TB, design_ref='DESIGN.md 2/C02'),
}
NOT_APPLICABLE = {
    'C14': 'Race-freedom/convergence of two OS threads synchronised through inotify/epoll and the real file system: no bounded symbolic encoding of the kernel side is within reach of CBMC; encodable ingredients are claimed under C12/C13.',
}
for _p in ['C01', 'C03', 'C04', 'C05', 'C06', 'C07', 'C08', 'C09', 'C10', 'C11', 'C12', 'C13', 'C15', 'C16', 'C17', 'C18', 'C19', 'C20']:
    NOT_APPLICABLE.setdefault(_p, 'harness not built yet in this revision (work in progress; see DESIGN.md section 2 for the planned encoding)')
