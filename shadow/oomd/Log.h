#pragma once
/* verification shadow of oomd/Log.h: logging is a sink; the kmsg record is an observable event */
#include <array>
#include <chrono>
#include <condition_variable>
#include <cstdio>
#include <ctime>
#include <iostream>
#include <mutex>
#include <sstream>
#include <thread>
#include <vector>
#include <string>
#include <utility>
extern "C" void vf_kmsg(const char* buf, const char* prefix);
extern "C" void vf_log_control(int enable);
namespace Oomd {
class LogStream {
 public:
  enum class Control { DISABLE, ENABLE };
  class Offset { public: uint64_t n; };
  template <typename T> LogStream& operator<<(const T&) { return *this; }
};
template <> inline LogStream& LogStream::operator<< <LogStream::Control>(const Control& c) { vf_log_control(c == Control::ENABLE); return *this; }
static inline void OOMD_KMSG_LOG(const std::string& buf, const std::string& prefix) { vf_kmsg(buf.c_str(), prefix.c_str()); }
#define OLOG ::Oomd::LogStream()
}
