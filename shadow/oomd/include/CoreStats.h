#pragma once
/* verification shadow of oomd/include/CoreStats.h: same keys, abbreviated so that they fit the bounded string model
 * (the key spelling is not the subject of any property; the Stats service itself (C19) uses the real header). */
#include <array>
namespace Oomd {
class CoreStats {
 public:
  static constexpr auto kKillsKey = "o.kills";
  static constexpr auto kNumDropInAdds = "o.d.add";
  static constexpr auto kNumDropInFired = "o.d.fir";
  static constexpr std::array<const char*, 3> kAllKeys = {kKillsKey, kNumDropInAdds, kNumDropInFired};
};
} // namespace Oomd
