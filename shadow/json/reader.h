#pragma once
#if VF_MODEL
#include <json/value.h>
#else
#include_next <json/reader.h>
#endif
