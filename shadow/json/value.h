#pragma once
// Model of the small part of jsoncpp that oomd's Stats.cpp uses (root["error"] = n; body[key] = n; root["body"] = body;
// toStyledString()). Only the model build sees this file; the real build includes the real <json/value.h>.
#if VF_MODEL
#include <string>
extern "C" void vf_json_set(const char* key, long long val, int is_obj);
namespace Json {
enum ValueType { nullValue = 0, intValue, uintValue, realValue, stringValue, booleanValue, arrayValue, objectValue };
class Value {
  int n_; long long v_; bool obj_;
  struct Ref { Value* owner; const char* key; std::string skey; Ref& operator=(int v) { owner->n_++; vf_json_set(key ? key : skey.c_str(), v, 0); return *this; } Ref& operator=(const Value& o) { owner->n_++; vf_json_set(key ? key : skey.c_str(), o.n_, 1); return *this; } };
 public:
  Value() : n_(0), v_(0), obj_(false) {} Value(ValueType t) : n_(0), v_(0), obj_(t == objectValue) {}
  Ref operator[](const char* k) { return Ref{this, k, std::string()}; }
  Ref operator[](const std::string& k) { return Ref{this, nullptr, k}; }
  std::string toStyledString() const { return std::string("{json}"); }
  int size() const { return n_; }
};
}
#else
#include_next <json/value.h>
#endif
