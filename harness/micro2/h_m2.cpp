#include "prelude.h"
#include "oomd/util/SystemMaybe.h"
#include "oomd/util/Util.h"
#include "oomd/include/CgroupPath.h"
#include "oomd/util/Fs.h"
#include "oomd/engine/PrekillHook.h"
#include "oomd/PluginRegistry.h"
#include "oomd/util/PluginArgParser.h"
using namespace Oomd;
namespace Oomd { SystemMaybe<std::vector<std::string>> Fs::glob(const std::string&, bool) { std::vector<std::string> v; v.push_back("/c/a"); v.push_back("/c/b"); return v; } }
static SystemMaybe<std::vector<std::string>> mk() { std::vector<std::string> v; v.push_back("a"); v.push_back("bb"); return v; }
struct VB { virtual int f() { return 1; } virtual ~VB() {} int pad{0}; };
struct VD : VB { int f() override { int s = 0; for (int i = 0; i < 5; i++) s += i; return 2 + s; } };
static VB* mkv(int which) { if (which) return new VD; return new VB; }
struct MHook : Oomd::Engine::PrekillHook { std::unique_ptr<Oomd::Engine::PrekillHookInvocation> fire(const CgroupContext&, const ActionContext&) override { return nullptr; } };
extern "C" void harness(void) {
#if H_M == 1
  std::vector<std::string> v; v.push_back("a"); v.push_back("bb");
  int n = 0; for (auto& s : v) n += (int)s.size();
  vf_event(EV_NOTE, n, 0, 0, 0);
#elif H_M == 2
  auto m = mk(); int n = 0; for (auto& s : *m) n += (int)s.size(); vf_event(EV_NOTE, n, 0, 0, 0);
#elif H_M == 3
  auto m = mk(); std::optional<std::vector<std::string>> o; o = std::move(*m); int n = 0; for (auto& s : *o) { auto parts = Util::split(s, '/'); n += (int)parts.size(); } vf_event(EV_NOTE, n, 0, 0, 0);
#elif H_M == 4
  CgroupPath p("/c", "*"); auto r = p.resolveWildcard(); int n = 0; for (auto& c : r) n += (int)c.relativePath().size(); vf_event(EV_NOTE, n, 0, 0, 0);
#elif H_M == 5
  CgroupPath p("/c", "a"); CgroupPath q = p.getChild("x"); CgroupPath r = q.getParent(); vf_event(EV_NOTE, (int)q.absolutePath().size(), (int)r.absolutePath().size(), 0, 0);
#elif H_M == 6
  std::vector<std::string> v; v.push_back("/a/b"); v.push_back("bb"); auto parts = Util::split(v[0], '/'); vf_event(EV_NOTE, (int)parts.size(), 0, 0, 0);
#elif H_M == 7
  std::string arr[2]; arr[0] = "/a/b"; arr[1] = "bb"; auto parts = Util::split(arr[0], '/'); vf_event(EV_NOTE, (int)parts.size(), 0, 0, 0);
#elif H_M == 8
  std::string* arr = (std::string*)malloc(4 * sizeof(std::string)); new (&arr[0]) std::string("/a/b"); auto parts = Util::split(arr[0], '/'); vf_event(EV_NOTE, (int)parts.size(), 0, 0, 0);
#elif H_M == 9
  std::string one("/a/b"); auto parts = Util::split(one, '/'); vf_event(EV_NOTE, (int)parts.size(), (int)parts[0].size(), 0, 0);
#elif H_M == 10
  std::string* arr = (std::string*)malloc(1 * sizeof(std::string)); new (&arr[0]) std::string("/a/b"); auto parts = Util::split(arr[0], '/'); vf_event(EV_NOTE, (int)parts.size(), 0, 0, 0);
#elif H_M == 11
  std::string* one = new std::string("/a/b"); auto parts = Util::split(*one, '/'); vf_event(EV_NOTE, (int)parts.size(), 0, 0, 0);
#elif H_M == 12
  struct W { std::string a[4]; }; W* w = new W; w->a[0] = "/a/b"; auto parts = Util::split(w->a[0], '/'); vf_event(EV_NOTE, (int)parts.size(), 0, 0, 0);
#elif H_M == 13
  VB* p = mkv(1); vf_event(EV_NOTE, p->f(), 0, 0, 0);
#elif H_M == 14
  std::vector<std::unique_ptr<VB>> v; v.emplace_back(mkv(1)); v.emplace_back(mkv(0)); int s = 0; for (auto& u : v) s += u->f(); vf_event(EV_NOTE, s, 0, 0, 0);
#elif H_M == 20
  MHook* h = new MHook; h->setName("h"); Oomd::Engine::PluginArgs a; a["cgroup"] = "x"; int rc = h->initPlugin(a, PluginConstructionContext("/c")); vf_event(EV_NOTE, rc, 0, 0, 0);
#elif H_M == 21
  PluginArgParser ap; std::unordered_set<CgroupPath> pats; PluginConstructionContext context("/c");
  ap.addArgumentCustom("cgroup", pats, [context](const std::string& s) { return PluginArgParser::parseCgroup(context, s); });
  Oomd::Engine::PluginArgs a; a["cgroup"] = "x"; bool ok = (bool)ap.parse(a); vf_event(EV_NOTE, ok, (int)pats.size(), 0, 0);
#elif H_M == 22
  PluginArgParser ap; int v = 0; ap.addArgument("n", v); Oomd::Engine::PluginArgs a; a["n"] = "5"; bool ok = (bool)ap.parse(a); vf_event(EV_NOTE, ok, v, 0, 0);
#elif H_M == 23
  getPrekillHookRegistry().add("h1", []() -> Oomd::Engine::PrekillHook* { return new MHook(); });
  std::unique_ptr<Oomd::Engine::PrekillHook> h(getPrekillHookRegistry().create("h1")); h->setName("h1"); Oomd::Engine::PluginArgs a; a["cgroup"] = "x"; int rc = h->initPlugin(a, PluginConstructionContext("/c")); vf_event(EV_NOTE, rc, 0, 0, 0);
#elif H_M == 24
  getPrekillHookRegistry().add("h1", []() -> Oomd::Engine::PrekillHook* { return new MHook(); });
  getPrekillHookRegistry().add("h10", []() -> Oomd::Engine::PrekillHook* { return new MHook(); });
  getPrekillHookRegistry().add("h11", []() -> Oomd::Engine::PrekillHook* { return new MHook(); });
  std::unique_ptr<Oomd::Engine::PrekillHook> h(getPrekillHookRegistry().create("h1")); h->setName("h1"); Oomd::Engine::PluginArgs a; a["cgroup"] = "x"; int rc = h->initPlugin(a, PluginConstructionContext("/c")); vf_event(EV_NOTE, rc, 0, 0, 0);
#endif
}
