// Harness for C20: the real Log / LogStream (real oomd/Log.h and Log.cpp, not the shadow) -
//   mode 1: one debugLog() step from an arbitrary backlog state (inductive step on AsyncLogState),
//   mode 2: the final ioThread() iteration (shutdown flush) over a queue with symbolic contents and drop count,
//   mode 3: kmsgLog() while plugin logs are silenced on this thread.
#include "prelude.h"
#include "oomd/Log.h"
using namespace Oomd;
#ifndef H_MODE
#define H_MODE 1
#endif
static std::string symstr(int key, int maxlen) { int n = (int)vf_nd(key, 0, maxlen); std::string s; for (int i = 0; i < n; i++) s.push_back((char)('a' + vf_nd(key + 1 + i, 0, 3))); return s; }
#ifndef VF_MODEL
// real build: a streambuf that reports every block handed to the sink the way the vstl ostream hook does
extern "C" void vf_os_write(const void* os, const char* s, size_t n);
struct EventBuf : std::streambuf {
  std::streamsize xsputn(const char* s, std::streamsize n) override { vf_os_write(this, s, (size_t)n); return n; }
  int overflow(int c) override { char ch = (char)c; vf_os_write(this, &ch, 1); return c; }
};
#endif
extern "C" void harness(void) {
#ifdef VF_MODEL
  std::ostream sink; sink.vf_observed_ = true;
#else
  EventBuf ebuf; std::ostream sink(&ebuf);
#endif
#if H_MODE == 1
  auto log = Log::get_for_unittest(-1, sink, true);   // no flusher thread: the step is examined in isolation
  log->inline_ = false;
  auto& st = log->state_;
#ifdef H_SMALLCAP
  // the cap is a (const) member of the state: the same code is examined with a small symbolic cap, so that lines longer
  // than the whole cap - which the bounded strings cannot reach at 1 MiB - are covered as well
  int64_t cap = vf_nd(3, 0, 12);
  const_cast<size_t&>(st.maxSize) = (size_t)cap;
  int64_t backlog = vf_nd(1, 0, 12); vf_assume(backlog <= cap);
#else
  int64_t cap = 1024 * 1024;
  int64_t backlog = vf_nd(1, 0, 1024 * 1024);         // bytes already accepted and not yet written (ghost for the queued lines)
#endif
  vf_cfg_set(0, 3, cap);
  int64_t dropped = vf_nd(2, 0, 5);
  st.curSize = (size_t)backlog; st.numDiscarded = (size_t)dropped;
  std::string s = symstr(10, 6);
  int64_t n = (int64_t)s.size();
  vf_cfg_set(0, 0, backlog); vf_cfg_set(0, 1, dropped); vf_cfg_set(0, 2, n);
  std::string copy = s;
  log->debugLog(std::move(s));
  auto* q = st.getCurrentQueue();
  bool accepted = q->size() == 1;
  vf_event(EV_NOTE, 1, accepted, (int64_t)st.curSize, (int64_t)st.numDiscarded);
  if (accepted) vf_check((*q)[0] == copy, "C20: an accepted line is queued unchanged");
  vf_check(q->size() <= 1, "C20: one call queues at most one line");
#elif H_MODE == 2
  auto log = Log::get_for_unittest(-1, sink, true);
  log->inline_ = false;
  auto& st = log->state_;
  int nq = (int)vf_nd(1, 0, 2);
  auto* q = st.getCurrentQueue();
  int64_t total = 0;
  for (int i = 0; i < nq; i++) { std::string s = symstr(10 + i * 8, 2); s.push_back((char)('0' + i)); total += (int64_t)s.size(); vf_cfg_set(1, i, (int64_t)s.size()); q->emplace_back(std::move(s)); }
  int64_t dropped = vf_nd(2, 0, 3);
  st.curSize = (size_t)total; st.numDiscarded = (size_t)dropped; st.ioThreadRunning = false;   // shutdown requested: this is the last iteration
  vf_cfg_set(0, 0, nq); vf_cfg_set(0, 1, dropped);
  uint64_t tick0 = st.ioTick;
  log->ioThread(sink);
  vf_event(EV_NOTE, 2, (int64_t)q->size(), (int64_t)st.curSize, (int64_t)st.numDiscarded);
  vf_event(EV_NOTE, 3, (int64_t)(st.ioTick - tick0), 0, 0);
#else
  auto log = Log::get_for_unittest(7, sink, true);
  int silenced = (int)vf_nd(1, 0, 1);
  if (silenced) { LogStream ls(*log); ls << LogStream::Control::DISABLE; }
  std::string buf = symstr(10, 3), prefix = symstr(20, 2);
  vf_cfg_set(0, 0, silenced); vf_cfg_set(0, 1, (int64_t)buf.size()); vf_cfg_set(0, 2, (int64_t)prefix.size());
  vf_cfg_set(0, 3, buf.empty() ? 0 : buf[0]); vf_cfg_set(0, 4, prefix.empty() ? 0 : prefix[0]);
  log->kmsgLog(buf, prefix);
  log->kmsg_fd_ = -1;   // the harness owns fd 7
#endif
  vf_event(EV_END, 0, 0, 0, 0);
}
