/* Oracle for C20 (sequential part): backlog invariant of one debugLog step, exactly-once in-order flush of the last
 * ioThread iteration with the drop report, kmsg record independent of per-thread silencing. */
#include "vf_rt.h"
#include "vf_events.h"
#ifndef H_MODE
#define H_MODE 1
#endif
void harness(void);
int vf_native_finish(void);
#define MAXSZ (1024 * 1024)
static int64_t n1[4], n2[4], n3[4]; static int seen1, seen2, seen3;
static int nw; static int64_t w_len[8], w_first[8], w_last[8], w_kind[8];
static int nkw; static int64_t kw_fd, kw_len, kw_first, kw_last;
void vf_on_event(int kind, int64_t a, int64_t b, int64_t c, int64_t d) {
  if (kind == EV_NOTE && a == 1) { n1[0] = b; n1[1] = c; n1[2] = d; seen1++; }
  else if (kind == EV_NOTE && a == 2) { n2[0] = b; n2[1] = c; n2[2] = d; seen2++; }
  else if (kind == EV_NOTE && a == 3) { n3[0] = b; seen3++; }
  else if (kind == EV_NOTE && (a == 600 || a == 601)) { if (nw < 8) { w_kind[nw] = a; w_len[nw] = b; w_first[nw] = c; w_last[nw] = d; } nw++; }
  else if (kind == EV_WRITE) { kw_fd = a; kw_len = b; kw_first = c; kw_last = d; nkw++; }
}
int main(void) {
  vf_global_ctors();
  vf_run_harness(harness);
  VF_CHECK(vf_exc == 0, "no exception escapes the logger");
#if H_MODE == 1
  int64_t backlog = vf_cfg[0][0], dropped = vf_cfg[0][1], n = vf_cfg[0][2];
  VF_CHECK(seen1 == 1, "harness: step observed");
  int64_t cap = vf_cfg[0][3];   /* 1 MiB, or the small symbolic cap of the smallcap variant */
  int fits = n + backlog <= cap;
  VF_CHECK(n1[0] == fits, "C20: a line is accepted iff the backlog stays within 1 MiB, otherwise dropped");
  if (fits) {
    VF_CHECK(n1[1] == backlog + n, "C20: the backlog counter grows by the size of every accepted line (so the 1 MiB bound is enforced)");
    VF_CHECK(n1[2] == dropped, "C20: accepting a line does not change the drop count");
    if (backlog + n == cap) VF_REACH("line accepted exactly at the 1 MiB boundary");
  } else if (n > cap) {
    VF_CHECK(n1[1] == backlog && n1[2] == dropped + 1, "C20: a line longer than the whole cap is dropped and counted");
    VF_REACH("line longer than the whole cap");
  } else {
    VF_CHECK(n1[1] == backlog, "C20: a dropped line does not change the backlog");
    VF_CHECK(n1[2] == dropped + 1, "C20: every dropped line is counted");
    VF_REACH("line dropped at the cap");
  }
#elif H_MODE == 2
  int nq = (int)vf_cfg[0][0]; int64_t dropped = vf_cfg[0][1];
  VF_CHECK(seen2 == 1 && n2[0] == 0 && n2[1] == 0 && n2[2] == 0, "C20: after the flush the queue is empty and backlog / drop counters are reset");
  VF_CHECK(seen3 == 1 && n3[0] == 1, "C20: the flusher switches queues exactly once per iteration");
  int k = 0;
  for (int i = 0; i < 2; i++) if (i < nq) {
    VF_CHECK(k < nw && w_kind[k] == 600 && w_len[k] == vf_cfg[1][i] && w_last[k] == '0' + i, "C20: every accepted line is written exactly once, in the order it was logged");
    k++;
  }
  if (dropped) {
    VF_CHECK(k + 2 < nw && w_kind[k] == 600 && w_first[k] == '.' && w_kind[k + 1] == 600 && w_len[k + 1] == 1 && w_first[k + 1] == '0' + dropped && w_kind[k + 2] == 600, "C20: the number of dropped lines is reported in the output");
    k += 3;
    VF_REACH("drop report written");
  }
  VF_CHECK(nw == k, "C20: nothing else is written by the flusher");
  if (nq == 2) VF_REACH("two lines flushed in order");
#else
  int silenced = (int)vf_cfg[0][0]; int64_t bl = vf_cfg[0][1], pl = vf_cfg[0][2];
  int64_t want = bl + (pl ? pl + 2 : 0); int nl = 0;
  /* a newline is appended unless the message is empty or already ends in one (letters only here) */
  if (want > 0) { want++; nl = 1; }
  VF_CHECK(nkw == 1 && kw_fd == 7, "C20: the kmsg record is written to the kmsg fd whether or not plugin logs are silenced on this thread");
  VF_CHECK(kw_len == want, "C17/C20: kmsg record = prefix + \": \" + message + newline");
  if (nl) VF_CHECK(kw_last == '\n', "C20: kmsg record ends with a newline");
  if (pl) VF_CHECK(kw_first == vf_cfg[0][4], "C20: kmsg record starts with the prefix");
  if (silenced) VF_REACH("kmsg written while logs are silenced");
  if (silenced) VF_CHECK(nw == 0, "C20: silencing suppresses the debug copy on this thread");
#endif
  VF_CHECK(0, "WITNESS: oracle reached its end");
#ifndef __CPROVER__
  return vf_native_finish();
#endif
  return 0;
}
