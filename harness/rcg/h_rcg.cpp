// Harness for C11: the real Ruleset with a ruleset-level cgroup pattern, driven for T ticks over a world in which the
// matching cgroups appear, disappear, are re-created and (un)tagged between ticks. Template plugins are built the way
// ConfigCompiler builds them (registry.create + setName + initPlugin), clones are built by the real
// Ruleset::registerRunnableRulesetForCgroupPath / DetectorGroup(const DetectorGroup&).
#include "prelude.h"
#include "oomd/engine/Engine.h"
#include "scripted.h"
#include "world.h"
#include "rcg_cfg.h"
using namespace Oomd;
using Oomd::Engine::BasePlugin; using Oomd::Engine::DetectorGroup; using Oomd::Engine::Ruleset;
enum { K_TICKADV = 2, K_FILTER = 3, K_DELAY = 4, K_EXISTS = 100, K_TAG = 200, K_RECREATE = 300 };
static BasePlugin* mk(const char* name, int id) {
  BasePlugin* p = getPluginRegistry().create(name);
  p->setName(name);
  Oomd::Engine::PluginArgs args;
  args["id"] = std::to_string(id);
  if (p->initPlugin(args, PluginConstructionContext("/c")) != 0) vf_fail("harness: template init failed");
  return p;
}
static const char* kRel[4] = {"c0", "c1", "c2", "c3"};
extern "C" void harness(void) {
  getPluginRegistry().add("s", []() -> BasePlugin* { return new vfh::Scripted(); });
  vfw::add("", "", -1);
  for (int k = 0; k < H_NC; k++) vfw::add(kRel[k], kRel[k], 0);
#if defined(H_STOP) && H_STOP == 10
  return;
#endif
  // which candidate cgroups are live (exist, resp. carry the xattr tag when a filter is configured) at which tick is
  // concrete per variant (H_LIVE bit t*H_NC+k): a symbolic liveness history makes every container loop symbolic.
  const int filter = H_FILTER; int delay = (int)vf_nd(K_DELAY, 0, 20);
  vf_cfg_set(CFG_FILTER, 0, filter); vf_cfg_set(CFG_DELAY, 0, delay);
#if defined(H_STOP) && H_STOP == 11
  return;
#endif
  std::vector<std::unique_ptr<DetectorGroup>> dgs;
#if defined(H_STOP) && H_STOP == 17
  { BasePlugin* q1 = mk("s", 1); BasePlugin* q2 = mk("s", 2); vf_event(EV_NOTE, q1 != q2, 0, 0, 0); return; }
#endif
#if defined(H_STOP) && H_STOP == 18
  { BasePlugin* q1 = mk("s", 1); BasePlugin* q2 = mk("s", 2); vf_event(EV_NOTE, q1 != q2, 0, 0, 0); delete q1; delete q2; return; }
#endif
#if defined(H_STOP) && H_STOP == 19
  { BasePlugin* q1 = mk("s", 1); delete q1; BasePlugin* q2 = mk("s", 2); delete q2; return; }
#endif
#if defined(H_STOP) && H_STOP == 12
  { BasePlugin* q = mk("s", 1); vf_event(EV_NOTE, q != nullptr, 0, 0, 0); return; }
#endif
#if defined(H_STOP) && H_STOP == 13
  { std::vector<std::unique_ptr<BasePlugin>> ds; ds.emplace_back(mk("s", 1)); vf_event(EV_NOTE, 1, 0, 0, 0); return; }
#endif
  {
    std::vector<std::unique_ptr<BasePlugin>> ds;
    for (int d = 0; d < H_D; d++) ds.emplace_back(mk("s", DET_ID(d)));
    dgs.emplace_back(new DetectorGroup("g0", std::move(ds)));
  }
#if defined(H_STOP) && H_STOP == 14
  return;
#endif
  std::vector<std::unique_ptr<BasePlugin>> acts;
#if defined(H_STOP) && H_STOP == 16
  acts.emplace_back(mk("s", 2)); return;
#endif
  for (int a = 0; a < H_A; a++) acts.emplace_back(mk("s", ACT_ID(a)));
  vf_event(EV_OP, 1, 0, 0, 0);   // end of template construction
#if defined(H_STOP) && H_STOP == 1
  return;
#endif
  Ruleset rs("r0", std::move(dgs), std::move(acts), false, false, false, 0, delay, PREKILL_TIMEOUT_S, filter ? "t" : "", "/c", "c*");
  OomdContext ctx;
#if defined(H_STOP) && H_STOP == 2
  return;
#endif
  for (int t = 0; t < H_T; t++) {
    for (int k = 0; k < H_NC; k++) {
      const int live = (H_LIVE >> (t * H_NC + k)) & 1;
      const int ex = filter ? 1 : live, tag = filter ? live : (int)vf_nd(K_TAG + t * 8 + k, 0, 1);
      vfw::Node& n = vfw::nodes[1 + k];
      if (!ex && n.exists) vfw::remove_node(1 + k);
      else if (ex && !n.exists) vfw::recreate_node(1 + k);
      n.xattrs = tag ? 16 : 0;
      vf_cfg_set(CFG_EXISTS + t, k, ex); vf_cfg_set(CFG_TAG + t, k, tag);
    }
    vf_clock_advance(vf_nd(K_TICKADV, 0, 30LL * 1000000000LL));
    vfh::g_tick = t;
    vf_event(EV_TICK, t, vf_clock_ns(), 0, 0);
    ctx.refresh();
    rs.prerun(ctx);
#if defined(H_STOP) && H_STOP == 3
    return;
#endif
    rs.runOnce(ctx);
  }
  vf_event(EV_END, 0, 0, 0, 0);
}
