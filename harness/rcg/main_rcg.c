/* Oracle for C11: one independent, persistent instance per matching cgroup.
 * Slots are indexed by (tick, cgroup k, plugin); the reference keeps per-cgroup pause / suspended-chain state and
 * resets it exactly when the cgroup was not evaluated on the previous tick. Order across cgroups is left free
 * (glob order is unspecified); order inside one instance is checked through consecutive sequence numbers. */
#include "vf_rt.h"
#include "vf_events.h"
#include "rcg_cfg.h"
void harness(void);
int vf_native_finish(void);
#define NS 1000000000LL
struct slot { int cnt; int64_t seq, b, c, d; };
static int cur_t = -1, n_other, n_template_runs, built;
static int64_t tick_clk[H_T];
static struct slot s_det[H_T][H_NC][H_D], s_act[H_T][H_NC][H_A], s_ctx[H_T][H_NC][H_A];
static int n_init_clone_bad;
static void put(struct slot* s, int64_t b, int64_t c, int64_t d) { s->cnt++; s->seq = vf_seq; s->b = b; s->c = c; s->d = d; }
void vf_on_event(int kind, int64_t a, int64_t b, int64_t c, int64_t d) {
  if (kind == EV_TICK) { cur_t = (int)a; if (cur_t >= 0 && cur_t < H_T) tick_clk[cur_t] = b; return; }
  if (kind == EV_OP) { built = 1; return; }
  if (kind == EV_END || kind == EV_STAT || kind == EV_LOGCTL || kind == EV_PRERUN || kind == EV_NOTE) return;
  if (kind == EV_INIT) return;
  if (kind == EV_RUN || kind == EV_CTX) {
    if (cur_t < 0 || cur_t >= H_T) { n_other++; return; }
    if (kind == EV_RUN) {
      int k = VF_CTX_RCG(c);
      if (k >= H_NC) { n_template_runs++; return; }   /* a plugin ran without a ruleset cgroup being set */
      /* slots are addressed with constant indices (one guarded call per slot): a slot address with symbolic indices into
       * these small nested arrays made CBMC 6.11 report counterexamples that neither native build reproduces */
      if (a >= 100) { int ai = (int)a - 100; if (ai >= H_A) { n_other++; return; } for (int t_ = 0; t_ < H_T; t_++) for (int k_ = 0; k_ < H_NC; k_++) for (int a_ = 0; a_ < H_A; a_++) if (t_ == cur_t && k_ == k && a_ == ai) put(&s_act[t_][k_][a_], b, c, d); }
      else { int di = (int)a - 1; if (di < 0 || di >= H_D) { n_other++; return; } for (int t_ = 0; t_ < H_T; t_++) for (int k_ = 0; k_ < H_NC; k_++) for (int d_ = 0; d_ < H_D; d_++) if (t_ == cur_t && k_ == k && d_ == di) put(&s_det[t_][k_][d_], b, c, d); }
    } else {
      int k = (int)d; int ai = (int)a - 100;
      if (k < 0 || k >= H_NC || ai < 0 || ai >= H_A) { n_other++; return; }
      for (int t_ = 0; t_ < H_T; t_++) for (int k_ = 0; k_ < H_NC; k_++) for (int a_ = 0; a_ < H_A; a_++) if (t_ == cur_t && k_ == k && a_ == ai) put(&s_ctx[t_][k_][a_], b, c, d);
    }
    return;
  }
  n_other++;
}

int main(void) {
  vf_global_ctors();
  vf_run_harness(harness);
  VF_CHECK(vf_exc == 0, "no exception escapes Ruleset::runOnce");
  VF_CHECK(n_other == 0, "C11: no plugin event outside the configured plugins / candidate cgroups");
  VF_CHECK(n_template_runs == 0, "C11: template plugins never run; every evaluation has its ruleset cgroup set");
  int filter = (int)vf_cfg[CFG_FILTER][0]; int64_t delay = vf_cfg[CFG_DELAY][0];
  int visited_prev[H_NC], susp[H_NC], inst_serial[H_NC]; int64_t paused_until[H_NC], susp_uuid[H_NC], susp_to[H_NC];
  int max_serial = -1;
  for (int k = 0; k < H_NC; k++) { visited_prev[k] = 0; susp[k] = -1; paused_until[k] = 0; susp_uuid[k] = 0; susp_to[k] = 0; inst_serial[k] = -1; }
  for (int t = 0; t < H_T; t++) {
    int64_t now = tick_clk[t];
    int tick_max_serial = max_serial;
    for (int k = 0; k < H_NC; k++) {
      int live = vf_cfg[CFG_EXISTS + t][k] && (!filter || vf_cfg[CFG_TAG + t][k]);
      if (!live) {
        for (int d = 0; d < H_D; d++) VF_CHECK(s_det[t][k][d].cnt == 0, "C11: no evaluation for a cgroup that does not exist or lacks the xattr_filter attribute");
        for (int a = 0; a < H_A; a++) VF_CHECK(s_act[t][k][a].cnt == 0, "C11: no action for a cgroup that does not exist or lacks the xattr_filter attribute");
        if (visited_prev[k]) VF_REACH("instance discarded because its cgroup disappeared or lost the attribute");
        visited_prev[k] = 0;
        continue;
      }
      if (!visited_prev[k]) { susp[k] = -1; paused_until[k] = 0; if (inst_serial[k] >= 0) VF_REACH("cgroup reappears after being absent for a tick"); }
      /* detectors: exactly once each, in order, consecutive */
      int64_t seq = s_det[t][k][0].seq; int fired = 1;
      int ser0 = VF_CTX_SERIAL(s_det[t][k][0].c);
      for (int d = 0; d < H_D; d++) {
        struct slot* s = &s_det[t][k][d];
        VF_CHECK(s->cnt == 1, "C11: each existing matching cgroup is evaluated exactly once per tick");
        VF_CHECK(s->seq == seq, "C11: detectors of one instance run in order without interleaving"); seq++;
        VF_CHECK(VF_CTX_SERIAL(s->c) == ser0 + d, "C11: detectors of one evaluation belong to the same instance");
        VF_CHECK(VF_CTX_PRE(s->c) == 1, "C11: every instance plugin receives prerun on every tick before it runs");
        if (s->b == RET_STOP) fired = 0;
      }
      if (visited_prev[k]) VF_CHECK(ser0 == inst_serial[k], "C11: instance (detector windows) persists from tick to tick while the cgroup exists");
      else { VF_CHECK(ser0 > max_serial, "C11: a cgroup absent for a tick (or new) starts from a fresh instance"); }
      inst_serial[k] = ser0;
      if (ser0 + H_D + H_A - 1 > tick_max_serial) tick_max_serial = ser0 + H_D + H_A - 1;
      int start = -1, resumed = 0; int64_t uuid = 0, to = 0;
      if (now < paused_until[k]) { if (fired) VF_REACH("instance fires inside its own post-action pause"); }
      else if (susp[k] >= 0) { start = susp[k]; uuid = susp_uuid[k]; to = susp_to[k]; susp[k] = -1; resumed = 1; VF_REACH("instance resumes its own suspended chain"); }
      else if (fired) { start = 0; to = now + PREKILL_TIMEOUT_S * NS; }
      int stopped = 0;
      for (int a = 0; a < H_A; a++) {
        struct slot* s = &s_act[t][k][a]; struct slot* x = &s_ctx[t][k][a];
        if (start < 0 || a < start || stopped) { VF_CHECK(s->cnt == 0, "C11: per-instance chain rule (fires, own pause, own suspended chain)"); continue; }
        VF_CHECK(s->cnt == 1 && s->seq == seq, "C11: instance action chain runs in order right after its detectors"); seq++;
        VF_CHECK(VF_CTX_SERIAL(s->c) == ser0 + H_D + a, "C11: actions belong to the same persistent instance");
        VF_CHECK(VF_CTX_CG(s->c) == k, "C11: instance actions are initialised with the instance's cgroup as their cgroup argument");
        VF_CHECK(VF_CTX_PRE(s->c) == 1, "C11: every instance plugin receives prerun on every tick before it runs");
        VF_CHECK(x->cnt == 1 && x->seq == seq, "C11: action context names the instance's cgroup as target"); seq++;
        if (resumed) { VF_CHECK(x->b == uuid && x->c == to, "C06: resumed instance action sees the context it was fired with"); }
        else { VF_CHECK(x->c == to, "C07: prekill deadline = fire time + prekill_hook_timeout"); uuid = x->b; }
        int ret = (int)s->b;
        if (ret == RET_CONTINUE) continue;
        stopped = 1;
        if (ret == RET_STOP) paused_until[k] = now + delay * NS;
        else { susp[k] = a; susp_uuid[k] = uuid; susp_to[k] = to; }
      }
      visited_prev[k] = 1;
    }
    max_serial = tick_max_serial;
  }
  VF_CHECK(0, "WITNESS: oracle reached its end");
#ifndef __CPROVER__
  return vf_native_finish();
#endif
  return 0;
}
