#ifndef RCG_CFG_H
#define RCG_CFG_H
/* C11 harness shape: one ruleset with a ruleset-level cgroup pattern over NC candidate cgroups c0..c(NC-1). */
#ifndef H_T
#define H_T 2
#endif
#ifndef H_NC
#define H_NC 2
#endif
#ifndef H_LIVE
#define H_LIVE 15
#endif
#ifndef H_FILTER
#define H_FILTER 0
#endif
#ifndef H_D
#define H_D 1
#endif
#ifndef H_A
#define H_A 2
#endif
enum { CFG_FILTER = 0, CFG_DELAY = 1, CFG_EXISTS = 2 /* +t: [k] */, CFG_TAG = 6 /* +t: [k] */ };
#define DET_ID(d) ((d) + 1)
#define ACT_ID(a) (100 + (a))
#define PREKILL_TIMEOUT_S 5
#endif
