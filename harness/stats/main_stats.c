#include "vf_rt.h"
#include "vf_events.h"
void harness(void);
int vf_native_finish(void);
void vf_on_event(int kind, int64_t a, int64_t b, int64_t c, int64_t d) {}
int main(void) {
  vf_global_ctors();
  vf_run_harness(harness);
  VF_CHECK(vf_exc == 0, "C19: no exception escapes the session");
  VF_CHECK(0, "WITNESS: harness reached its end");
#ifndef __CPROVER__
  return vf_native_finish();
#endif
  return 0;
}
