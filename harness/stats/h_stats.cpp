// Harness for C19 (stats service, one client session): the real Stats::processMsg on a connection whose byte stream is
// symbolic - up to H_NB request bytes, each from a small alphabet, ended by EOF, by a read error (the 2 s receive timeout
// of a stalling client) or by the 32-byte window - with the session bookkeeping the listener thread does around it
// (thread_count_ incremented before the session thread starts). Model build: read/write/close are model functions
// (env/stats_libc.c); real build: a real socketpair, the stalling client is a 20 ms receive timeout.
#include "prelude.h"
#include "oomd/Stats.h"
#include <sys/socket.h>
#include <sys/time.h>
#include <unistd.h>
#include <fcntl.h>
using namespace Oomd;
#ifndef H_NB
#define H_NB 3
#endif
extern "C" { extern int vf_st_nbytes; void vf_st_setbyte(unsigned i, unsigned v); extern int vf_st_end; /* 0 EOF, 1 read error */ extern int vf_st_nwrite, vf_st_nclose; int vf_st_json_err, vf_st_json_nbody, vf_st_json_hasbody;
void vf_json_set(const char* key, long long val, int is_obj) { if (key[0] == 'e') vf_st_json_err = (int)val; else if (key[0] == 'b' && is_obj) { vf_st_json_hasbody = 1; vf_st_json_nbody = (int)val; } } }
static const char kAlpha[] = {'g', 'r', '0', 'x', '\n', 0};
static unsigned char vf_st_bytes[40];   // the harness's own copy of the request bytes (the model's read() has its copy)
extern "C" void harness(void) {
  vf_st_nbytes = (int)vf_nd(1, 0, H_NB);
  for (int i = 0; i < H_NB; i++) { vf_st_bytes[i] = (unsigned char)kAlpha[vf_nd(10 + i, 0, 5)]; vf_st_setbyte((unsigned)i, vf_st_bytes[i]); }
  vf_st_end = (int)vf_nd(2, 0, 1);
  Stats* s = Stats::get_for_unittest("/s").release();   // (never destroyed here: shutdown is judged through thread_count_)
  s->set("k", 5);
  int fd;
#if VF_MODEL
  fd = 9;
#else
  int sv[2]; if (::socketpair(AF_UNIX, SOCK_STREAM, 0, sv) != 0) vf_fail("env: socketpair");
  fd = sv[0];
  if (vf_st_nbytes > 0 && ::write(sv[1], vf_st_bytes, vf_st_nbytes) != vf_st_nbytes) vf_fail("env: client write");
  if (vf_st_end == 0) ::shutdown(sv[1], SHUT_WR);                                   // client half-closes: EOF
  else { timeval tv{0, 20000}; ::setsockopt(fd, SOL_SOCKET, SO_RCVTIMEO, &tv, sizeof tv); }   // client stalls: the receive timeout fires
#endif
  s->thread_count_ = 1;   // what runSocket() does before it starts the session thread
  s->processMsg(fd);
  int replied;
  vf_check(vf_st_nwrite <= 1, "C19: at most one reply per connection");
#if VF_MODEL
  replied = vf_st_nwrite > 0;
  vf_check(vf_st_nclose == 1, "C19: every client connection is closed exactly once");
#else
  char rb[256]; int fl = ::fcntl(sv[1], F_GETFL); ::fcntl(sv[1], F_SETFL, fl | O_NONBLOCK); replied = ::read(sv[1], rb, sizeof rb) > 0; ::close(sv[1]);
#endif
  // which request was it: first byte, unless the stream ended / a terminator came first
  int first = -1; bool rderr = false;
  { int i = 0; for (; i < H_NB && i < vf_st_nbytes; i++) { if (vf_st_bytes[i] == '\n' || vf_st_bytes[i] == 0) break; if (i == 0) first = vf_st_bytes[0]; }
    if (i == vf_st_nbytes && vf_st_end == 1) rderr = true; }
  vf_check((int)s->thread_count_ == 0, "C19: the session is accounted as finished whatever the client does (otherwise shutting the service down cannot complete)");
  if (!rderr) {
    vf_check(replied, "C19: a connection whose request could be read gets a reply");
#if VF_MODEL
    int want_err = (first == 'g' || first == 'r' || first == '0') ? 0 : (first == -1 ? 1 : 1);
    if (first == -1) want_err = 1;   // no request byte: mode stays at its default, which is not a known request
    vf_check(vf_st_json_err == want_err, "C19: g / r / 0 are answered with error 0, anything else with error 1");
    vf_check(vf_st_json_hasbody, "C19: the reply carries a body");
    if (first == 'g') vf_check(vf_st_json_nbody == 1, "C19: g returns all counters");
    else vf_check(vf_st_json_nbody == 0, "C19: only g returns counters");
#endif
    auto all = s->getAll();
    if (first == 'r') vf_check(all.count("k") == 1 && all["k"] == 0, "C19: r zeroes every counter but keeps the key");
    else vf_check(all.count("k") == 1 && all["k"] == 5, "C19: requests other than r leave the counters alone");
    if (first == 'g') vf_check(false, "REACH: g request");
  } else {
    vf_check(false, "REACH: client stalls (read error)");
  }
  vf_event(EV_NOTE, 1, (int)s->thread_count_, replied, 0);
  vf_event(EV_END, 0, 0, 0, 0);
}
