/* Oracle for C12 (numeric ruleset fields of the configuration): a value is valid iff it is a decimal non-negative integer
 * (optional leading blanks and '+' are what std::stoi reads as well; whether those and trailing garbage such as "1x" should
 * be accepted is not settled by the documentation and is not judged). */
#include "vf_rt.h"
#include "vf_events.h"
#ifndef H_LEN
#define H_LEN 2
#endif
void harness(void);
int vf_native_finish(void);
static int got = -1, seen;
void vf_on_event(int kind, int64_t a, int64_t b, int64_t c, int64_t d) { if (kind == EV_NOTE && a == 1) { got = (int)b; seen++; } }
int main(void) {
  vf_global_ctors();
  vf_run_harness(harness);
  VF_CHECK(vf_exc == 0, "C12: loading a configuration never ends in an uncaught exception (a bad numeric field is an error result)");
  if (vf_exc == 0) {
    VF_CHECK(seen == 1, "harness: compile returned");
    int alld = H_LEN > 0, anyd = 0, neg = 0, junk = 0;
    for (int i = 0; i < H_LEN; i++) { int c = (int)vf_cfg[0][i]; if (c >= '0' && c <= '9') anyd = 1; else { alld = 0; if (c == '-') neg = 1; else if (c != ' ' && c != '+') junk = 1; } }
    if (H_LEN == 0) { VF_CHECK(got == 1, "C12: an absent numeric field takes its default"); }
    else if (alld) { VF_CHECK(got == 1, "C12: a decimal non-negative post_action_delay / prekill_hook_timeout is accepted"); VF_REACH("valid number accepted"); }
    else if (!anyd) { VF_CHECK(got == 0, "C12: a numeric field without any digit is rejected with an error result"); VF_REACH("non-number judged"); }
    else if (neg && !junk) { /* "-1", "- 1", "1-": sign placement forms; a clean negative number must be rejected */
      int c0 = (int)vf_cfg[0][0]; int rest = 1; for (int i = 1; i < H_LEN; i++) { int c = (int)vf_cfg[0][i]; if (c < '0' || c > '9') rest = 0; }
      if (c0 == '-' && rest && H_LEN > 1) { int nonzero = 0; for (int i = 1; i < H_LEN; i++) if (vf_cfg[0][i] != '0') nonzero = 1; if (nonzero) VF_CHECK(got == 0, "C12: a negative post_action_delay / prekill_hook_timeout is rejected"); }
    }
  }
  VF_CHECK(0, "WITNESS: oracle reached its end");
#ifndef __CPROVER__
  return vf_native_finish();
#endif
  return 0;
}
