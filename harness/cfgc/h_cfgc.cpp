// Harness for C12 (configuration compile, numeric ruleset fields): the real Config2::compile on an IR whose
// post_action_delay / prekill_hook_timeout strings are symbolic (H_LEN characters over { 0 1 9 - + x blank }): loading
// either yields an engine or an error result - never an escaping exception - and yields an engine only if the value has a
// valid reading as a non-negative integer.
#include "prelude.h"
#include "oomd/config/ConfigCompiler.h"
#include "oomd/config/ConfigTypes.h"
#include "oomd/engine/Engine.h"
#include "scripted.h"
using namespace Oomd;
using Oomd::Engine::BasePlugin;
namespace IR = Oomd::Config2::IR;
#ifndef H_LEN
#define H_LEN 2
#endif
#ifndef H_FIELD
#define H_FIELD 0   /* 0 post_action_delay, 1 prekill_hook_timeout */
#endif
static const char kA[] = "019-+x ";
extern "C" void harness(void) {
  getPluginRegistry().add("s", []() -> BasePlugin* { return new vfh::Scripted(); });
  static IR::Root root;
  IR::Ruleset rs; rs.name = "r0";
  IR::Detector d; d.name = "s"; d.args["id"] = "1";
  IR::DetectorGroup g; g.name = "g0"; g.detectors.push_back(d); rs.dgs.push_back(g);
  IR::Action a; a.name = "s"; a.args["id"] = "100"; rs.acts.push_back(a);
  std::string v;
  for (int i = 0; i < H_LEN; i++) { char ch = kA[vf_nd(10 + i, 0, (int)sizeof(kA) - 2)]; v.push_back(ch); vf_cfg_set(0, i, (unsigned char)ch); }
  if (H_FIELD == 0) { rs.post_action_delay = v; } else { rs.post_action_delay = "0"; rs.prekill_hook_timeout = v; }
  root.rulesets.push_back(rs);
  PluginConstructionContext pcc("/c");
  auto engine = Config2::compile(root, pcc);
  vf_event(EV_NOTE, 1, engine ? 1 : 0, 0, 0);
  if (engine) engine.release();   // (teardown of the engine is not the subject)
  vf_event(EV_END, 0, 0, 0, 0);
}
