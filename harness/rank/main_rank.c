/* Oracle for C09 (kill_by_swap_usage): threshold = SwapTotal * pct / 100 in 64-bit arithmetic; eligible = swap usage strictly
 * above the threshold; first choice = highest kill preference, then largest swap usage, among the eligible. */
#include "vf_rt.h"
#include "vf_events.h"
void harness(void);
int vf_native_finish(void);
void vf_on_event(int kind, int64_t a, int64_t b, int64_t c, int64_t d) {}
int main(void) {
  vf_global_ctors();
  vf_run_harness(harness);
  VF_CHECK(vf_exc == 0, "no exception escapes the plugin");
  int64_t total = vf_cfg[0][0], pct = vf_cfg[0][1], rc = vf_cfg[0][2], thr = vf_cfg[0][3];
  VF_CHECK(rc == 0, "C09: a percentage threshold 0..100 is accepted");
  if (rc == 0) {
    VF_CHECK(thr == total * pct / 100, "C09: kill_by_swap_usage threshold in % of SwapTotal is exactly SwapTotal * pct / 100, also for SwapTotal above 2^31 and 2^32 bytes");
    if (total >= (1LL << 32)) VF_REACH("SwapTotal of 4 GiB or more");
    static const int node[3] = {1, 2, 3};
    int n = (int)vf_cfg[0][4];
    int elig = 0, best = -1;
    for (int i = 0; i < 3; i++) {
      if (vf_cfg[1 + i][0] > thr) {
        elig++;
        if (best < 0 || vf_cfg[1 + i][1] > vf_cfg[1 + best][1] || (vf_cfg[1 + i][1] == vf_cfg[1 + best][1] && vf_cfg[1 + i][0] > vf_cfg[1 + best][0])) best = i;
      }
    }
    VF_CHECK(n == elig, "C09: a cgroup at or below the swap threshold is never chosen; every cgroup above it is ranked");
    if (elig > 0) {
      int first = (int)vf_cfg[0][5]; int fi = -1; for (int i = 0; i < 3; i++) if (node[i] == first) fi = i;
      VF_CHECK(fi >= 0 && vf_cfg[1 + fi][0] > thr, "C09: the first choice is an eligible cgroup");
      if (fi >= 0) VF_CHECK(vf_cfg[1 + fi][1] == vf_cfg[1 + best][1] && vf_cfg[1 + fi][0] == vf_cfg[1 + best][0], "C09: kill_by_swap_usage picks the largest swap user above the threshold among the most preferred");
      if (elig >= 2) VF_REACH("two or more eligible cgroups");
    }
  }
  VF_CHECK(0, "WITNESS: oracle reached its end");
#ifndef __CPROVER__
  return vf_native_finish();
#endif
  return 0;
}
