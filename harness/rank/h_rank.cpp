// Harness for C09 (kill_by_swap_usage): the real KillSwapUsage<BaseKillPlugin>::init (threshold in % of SwapTotal read from
// the meminfo model) and rankForKilling over three cgroup contexts with symbolic swap usage and kill preference.
#include "prelude.h"
#include "world.h"
#include "oomd/OomdContext.h"
#include "oomd/plugins/KillSwapUsage.h"
using namespace Oomd;
enum { CFG_P = 0 /* [0] SwapTotal [1] percent [2] init rc [3] threshold_ [4] n ranked [5..7] ranked nodes */, CFG_CG = 1 /* + i: [0] swap usage [1] preference */ };
static const char* kRel[5] = {"", "a", "b", "a/x", "a/y"};
static const char* kName[5] = {"", "a", "b", "x", "y"};
static const int kParent[5] = {-1, 0, 0, 1, 1};
extern "C" void harness(void) {
  for (int n = 0; n < 4; n++) vfw::add(kRel[n], kName[n], kParent[n]);
  // SwapTotal = k * 2^H_SHIFT bytes with symbolic k: 2^31 and 2^32 lie inside the range
  int64_t k = vf_nd(1, 0, H_KMAX);
  vfw::meminfo_swaptotal = k << H_SHIFT; vfw::meminfo_memtotal = 1LL << 34; vfw::meminfo_swapfree = 0;
  int pct = (int)vf_nd(2, 0, 100);
  vf_cfg_set(CFG_P, 0, vfw::meminfo_swaptotal); vf_cfg_set(CFG_P, 1, pct);
  KillSwapUsage<>& p = *KillSwapUsage<>::create();
  Engine::PluginArgs args;
  args["cgroup"] = "a";
  args["threshold"] = std::to_string(pct) + "%";
  int rc = p.init(args, PluginConstructionContext("/c"));
  vf_cfg_set(CFG_P, 2, (uint64_t)(int64_t)rc); vf_cfg_set(CFG_P, 3, (uint64_t)p.threshold_);
  if (rc != 0) { vf_event(EV_END, 0, 0, 0, 0); return; }
  // ranking: swap usage of each cgroup is the threshold plus a symbolic offset -1..2 (so "above threshold" is decided at exactly the configured value)
  OomdContext& ctx = *new OomdContext;
  static const char* kP[3] = {"a", "b", "a/x"};
  std::vector<OomdContext::ConstCgroupContextRef> v;
  for (int i = 0; i < 3; i++) {
    auto cg = ctx.addToCacheAndGet(CgroupPath("/c", kP[i]));
    if (!cg) vf_fail("harness: context");
    int64_t off = vf_nd(10 + i, -1, 2); int pref = (int)vf_nd(20 + i, -1, 1);
    int64_t usage = p.threshold_ + off; if (usage < 0) usage = 0;
    cg->get().data_->swap_usage = usage; cg->get().data_->kill_preference = (KillPreference)pref;
    vf_cfg_set(CFG_CG + i, 0, (uint64_t)usage); vf_cfg_set(CFG_CG + i, 1, (uint64_t)(int64_t)pref);
    v.push_back(*cg);
  }
  auto ranked = p.rankForKilling(ctx, v);
  vf_cfg_set(CFG_P, 4, ranked.size());
  for (size_t i = 0; i < ranked.size() && i < 3; i++) vf_cfg_set(CFG_P, 5 + (int)i, (uint64_t)vfw::find_abs(ranked[i].get().cgroup().absolutePath()));
  vf_event(EV_END, 0, 0, 0, 0);
}
