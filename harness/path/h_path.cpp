// Harness for C16: laws of the real CgroupPath (constructor canonicalisation, getChild/getParent, ==/hash,
// hasDescendantWithPrefixMatching, resolveWildcard over an arbitrary glob result) and PluginArgParser::parseCgroup on
// symbolic strings of exact length H_LEN over the alphabet { / * ? . a b }, against references written on plain char
// buffers. One law group per variant (H_LAW).
#include "prelude.h"
#include "oomd/include/CgroupPath.h"
#include "oomd/util/Fs.h"
#include "oomd/util/PluginArgParser.h"
using namespace Oomd;
#ifndef H_LEN
#define H_LEN 3
#endif
#ifndef H_LEN2
#define H_LEN2 2
#endif
#ifndef H_LAW
#define H_LAW 1
#endif
static const char kAlpha[] = "/*?.ab";
#define MAXB (H_LEN + H_LEN2 + 2)   /* constant bound of every reference loop (lengths are symbolic after canonicalisation) */
struct Buf { char c[28]; int n; };   // (larger than 16 bytes on purpose: returned through memory, not coerced into integer registers)
static Buf sym(int key, int len) { Buf b; b.n = len; for (int i = 0; i < len; i++) b.c[i] = kAlpha[vf_nd(key + i, 0, 5)]; b.c[len] = 0; return b; }
static std::string str(const Buf& b) { return std::string(b.c, (size_t)b.n); }
// reference canonical relative path: components separated by single '/', no empty components
static Buf canon(const Buf& s) { Buf r; r.n = 0; bool pend = false; for (int i = 0; i < MAXB; i++) { if (i >= s.n) continue; if (s.c[i] == '/') { pend = r.n > 0; } else { if (pend) r.c[r.n++] = '/'; pend = false; r.c[r.n++] = s.c[i]; } } r.c[r.n] = 0; return r; }
static bool eq(const std::string& a, const Buf& b) { if ((int)a.size() != b.n) return false; bool r = true; for (int i = 0; i < MAXB; i++) if (i < b.n && a[i] != b.c[i]) r = false; return r; }
static bool beq(const Buf& a, const Buf& b) { if (a.n != b.n) return false; bool r = true; for (int i = 0; i < MAXB; i++) if (i < a.n && a.c[i] != b.c[i]) r = false; return r; }
// components of a canonical buffer
static int ncomp(const Buf& c) { if (c.n == 0) return 0; int k = 1; for (int i = 0; i < MAXB; i++) if (i < c.n && c.c[i] == '/') k++; return k; }
static void comp(const Buf& c, int idx, int* b, int* e) { int k = 0, s = 0; bool found = false; *b = *e = 0; for (int i = 0; i <= MAXB; i++) { if (i > c.n || found) continue; if (i == c.n || c.c[i] == '/') { if (k == idx) { *b = s; *e = i; found = true; } k++; s = i + 1; } } }
#if H_LAW == 5
static Buf g_glob[2]; static int g_nglob; static bool g_globerr;
namespace Oomd { SystemMaybe<std::vector<std::string>> Fs::glob(const std::string&, bool) { if (g_globerr) return SYSTEM_ERROR(EINVAL); std::vector<std::string> v; for (int i = 0; i < g_nglob; i++) v.push_back(str(g_glob[i])); return v; } }
#else
namespace Oomd { SystemMaybe<std::vector<std::string>> Fs::glob(const std::string&, bool) { vf_fail("env: glob not expected"); return std::vector<std::string>{}; } }
#endif
extern "C" void harness(void) {
  Buf s = sym(10, H_LEN);
  Buf cs = canon(s);
#if H_LAW == 1
  CgroupPath p("/c", str(s));
  const std::string& r = p.relativePath();
  vf_check(eq(r, cs), "C16: relative path is the canonical form (empty, duplicate, leading and trailing slashes ignored)");
  const std::string& a = p.absolutePath();
  bool okabs = a.size() == (size_t)(2 + (cs.n ? 1 + cs.n : 0)) && a[0] == '/' && a[1] == 'c';
  if (okabs && cs.n) { okabs = a[2] == '/'; for (int i = 0; i < MAXB; i++) if (i < cs.n && okabs) okabs = a[3 + i] == cs.c[i]; }
  vf_check(okabs, "C16: absolute path = cgroup-fs root + '/' + relative path (root alone for the root cgroup)");
  vf_check(p.isRoot() == (cs.n == 0), "C16: isRoot iff the canonical relative path is empty");
  vf_check((int)p.relativePathParts().size() == ncomp(cs), "C16: number of components");
  CgroupPath q("/c/", str(s));
  vf_check(q == p && q.absolutePath() == p.absolutePath(), "C16: trailing slash of the cgroup-fs root is ignored");
  if (cs.n == 0 && H_LEN > 0) vf_check(false, "REACH: non-empty string canonicalises to root");
  if (cs.n > 0 && cs.n < H_LEN) vf_check(false, "REACH: slashes were dropped by canonicalisation");
#elif H_LAW == 2
  Buf c = sym(30, H_LEN2);
  bool single = c.n > 0; for (int i = 0; i < H_LEN2; i++) if (c.c[i] == '/') single = false;
  CgroupPath p("/c", str(s));
  CgroupPath ch = p.getChild(str(c));
  if (single) {
    vf_check(ch.getParent() == p, "C16: appending one component and taking the parent is the identity");
    vf_check(ch.getParent().relativePath() == p.relativePath() && ch.getParent().absolutePath() == p.absolutePath(), "C16: parent of child has the same paths");
    vf_check(ch.relativePathParts().size() == p.relativePathParts().size() + 1, "C16: child has one more component");
    vf_check(false, "REACH: single-component child");
  }
  Buf cc = canon(c);
  // child of arbitrary (multi-component) suffix = canonical concatenation
  Buf want; want.n = 0; for (int i = 0; i < MAXB; i++) if (i < cs.n) want.c[want.n++] = cs.c[i]; if (cs.n && cc.n) want.c[want.n++] = '/'; for (int i = 0; i < MAXB; i++) if (i < cc.n) want.c[want.n++] = cc.c[i]; want.c[want.n] = 0;
  vf_check(eq(ch.relativePath(), want), "C16: getChild appends the canonical components of its argument");
  if (cs.n > 0) { bool threw = false; try { CgroupPath par = p.getParent(); vf_check((int)par.relativePathParts().size() == ncomp(cs) - 1, "C16: parent drops exactly the last component"); } catch (...) { threw = true; } vf_check(!threw, "C16: getParent of a non-root path does not throw"); }
  else { bool threw = false; try { p.getParent(); } catch (const std::invalid_argument&) { threw = true; } vf_check(threw, "C16: getParent of root is rejected"); }
#elif H_LAW == 3
  Buf s2 = sym(30, H_LEN2);
  Buf cs2 = canon(s2);
  CgroupPath p("/c", str(s)), q("/c", str(s2));
  bool same = beq(cs, cs2);
  vf_check((p == q) == same, "C16: equality agrees with equality of canonical absolute paths");
  vf_check((p != q) == !same, "C16: inequality is the negation of equality");
  if (same) vf_check(std::hash<CgroupPath>()(p) == std::hash<CgroupPath>()(q), "C16: equal paths hash equally");
  if (same && !beq(s, s2)) vf_check(false, "REACH: different spellings of the same path");
#elif H_LAW == 4
  Buf pat = sym(30, H_LEN2);
  Buf cp = canon(pat);
  CgroupPath p("/c", str(s)), pp("/c", str(pat));
  // reference (docs/prekill_hooks.md): true iff path equals the pattern, is an ancestor of a possible match, or descends
  // from a match; '*' stands for exactly one whole component; anything else must match literally
  int n1 = ncomp(cs), n2 = ncomp(cp), m = n1 < n2 ? n1 : n2; bool want = true;
  for (int i = 0; i < MAXB; i++) { if (i >= m) continue; int b1, e1, b2, e2; comp(cs, i, &b1, &e1); comp(cp, i, &b2, &e2); bool star = (e2 - b2 == 1 && cp.c[b2] == '*'); bool lit = (e1 - b1 == e2 - b2); for (int k = 0; k < MAXB; k++) if (lit && k < e1 - b1 && cs.c[b1 + k] != cp.c[b2 + k]) lit = false; if (!star && !lit) want = false; }
  vf_check(p.hasDescendantWithPrefixMatching(pp) == want, "C16: prekill-hook pattern match = equal / ancestor of a possible match / descendant of a match, '*' = one whole component");
  if (want && n1 > n2 && n2 > 0) vf_check(false, "REACH: path descends from a match");
  if (want && n1 < n2 && n1 > 0) vf_check(false, "REACH: path is an ancestor of a possible match");
#elif H_LAW == 5
  // resolveWildcard keeps exactly the glob results that are the cgroup-fs root or lie under it
  g_nglob = (int)vf_nd(50, 0, 2); g_globerr = vf_nd(51, 0, 1);
  static const char kAlpha2[] = "/c*ab";
  for (int g = 0; g < 2; g++) { g_glob[g].n = H_LEN2; for (int i = 0; i < H_LEN2; i++) g_glob[g].c[i] = kAlpha2[vf_nd(60 + g * 8 + i, 0, 4)]; g_glob[g].c[H_LEN2] = 0; }
  CgroupPath p("/c", str(s));
  std::vector<CgroupPath> out = p.resolveWildcard();
  int exp = 0;
  for (int g = 0; g < g_nglob && !g_globerr; g++) {
    const Buf& b = g_glob[g];
    bool under = b.n >= 2 && b.c[0] == '/' && b.c[1] == 'c' && (b.n == 2 || b.c[2] == '/');
    if (under) {
      vf_check(exp < (int)out.size(), "C16: every glob result under the cgroup-fs root is kept");
      if (exp < (int)out.size()) { Buf rel; rel.n = 0; for (int i = 3; i < H_LEN2; i++) rel.c[rel.n++] = b.c[i]; rel.c[rel.n] = 0; Buf cr = canon(rel); vf_check(eq(out[exp].relativePath(), cr), "C16: resolved path is the glob result relative to the cgroup-fs root"); }
      exp++;
    }
  }
  vf_check((int)out.size() == exp, "C16: names merely sharing a prefix with the cgroup-fs root (or outside it) are dropped");
  if (exp == 2) vf_check(false, "REACH: two results kept");
  if (g_nglob == 2 && exp < 2 && !g_globerr) vf_check(false, "REACH: a result outside the cgroup fs dropped");
#elif H_LAW == 6
  // comma separated cgroup argument: one CgroupPath per non-empty comma-separated piece
  static const char kAlpha3[] = ",/ab";
  Buf a; a.n = H_LEN; for (int i = 0; i < H_LEN; i++) a.c[i] = kAlpha3[vf_nd(70 + i, 0, 3)]; a.c[H_LEN] = 0;
  auto set = PluginArgParser::parseCgroup(PluginConstructionContext("/c"), str(a));
  // reference: distinct canonical forms of the non-empty pieces
  Buf pieces[6]; int np = 0; int st = 0;
  for (int i = 0; i <= a.n; i++) if (i == a.n || a.c[i] == ',') { if (i > st) { Buf piece; piece.n = 0; for (int k = 0; k < H_LEN; k++) if (k >= st && k < i) piece.c[piece.n++] = a.c[k]; piece.c[piece.n] = 0; Buf c = canon(piece); bool dup = false; for (int q = 0; q < 6; q++) if (q < np && beq(pieces[q], c)) dup = true; if (!dup && np < 6) pieces[np++] = c; } st = i + 1; }
  vf_check((int)set.size() == np, "C16: comma-separated cgroup argument yields one path per distinct non-empty piece");
  for (int q = 0; q < 6; q++) { if (q >= np) continue; bool found = false; for (const auto& cp : set) if (eq(cp.relativePath(), pieces[q])) found = true; vf_check(found, "C16: every comma-separated piece is present in canonical form"); }
  if (np == 2) vf_check(false, "REACH: two distinct pieces");
#endif
  vf_event(EV_END, 0, 0, 0, 0);
}
