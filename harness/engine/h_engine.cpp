// Harness: the real Engine / Ruleset / DetectorGroup driven for T ticks with scripted plugins whose verdicts, the
// configuration shape, the delays and the clock are all nondeterministic.
#include "prelude.h"
#include "oomd/engine/Engine.h"
#include "scripted.h"
#include "engine_cfg.h"
using namespace Oomd;
using Oomd::Engine::Ruleset; using Oomd::Engine::DetectorGroup; using Oomd::Engine::BasePlugin;
enum { K_R = 1, K_TICKADV = 2, K_G = 10, K_A = 20, K_D = 30, K_SIL = 50, K_DELAY = 60, K_OV = 70 };
#ifndef TICK_ADV_MAX_S
#define TICK_ADV_MAX_S 40
#endif
#ifndef DELAY_MAX_S
#define DELAY_MAX_S 30
#endif
extern "C" void harness(void) {
  const int R = H_MAXR;  /* configuration shape is concrete per variant (symbolic shapes make symex explode); variants enumerate shapes */
  vf_cfg_set(CFG_R, 0, R);
  std::vector<std::unique_ptr<Ruleset>> rss;
  for (int r = 0; r < R; r++) {
    const int G = H_MAXG, A = H_MAXA;
    vf_cfg_set(CFG_G, r, G); vf_cfg_set(CFG_A, r, A);
    std::vector<std::unique_ptr<DetectorGroup>> dgs;
    for (int g = 0; g < G; g++) {
      const int D = H_MAXD;
      vf_cfg_set(CFG_D + r, g, D);
      std::vector<std::unique_ptr<BasePlugin>> ds;
      for (int d = 0; d < D; d++) ds.emplace_back(new vfh::Scripted(DET_ID(r, g, d)));
      dgs.emplace_back(new DetectorGroup(vfh::nameOf('g', g), std::move(ds)));
    }
    std::vector<std::unique_ptr<BasePlugin>> acts;
    for (int a = 0; a < A; a++) {
      int ov = -1;
#ifdef FEAT_OVERRIDE
      ov = (int)vf_nd(K_OV + r * H_MAXA + a, -1, DELAY_MAX_S);
#endif
      vf_cfg_set(CFG_OV + r, a, ov + 1);
      acts.emplace_back(new vfh::Scripted(ACT_ID(r, a), ov));
    }
    int sil = (int)vf_nd(K_SIL + r, 0, 3), delay = (int)vf_nd(K_DELAY + r, 0, DELAY_MAX_S);
    vf_cfg_set(CFG_SIL, r, sil); vf_cfg_set(CFG_DELAY, r, delay);
    rss.emplace_back(new Ruleset(vfh::nameOf('r', r), std::move(dgs), std::move(acts), false, false, false, (uint32_t)sil, delay, PREKILL_TIMEOUT_S));
  }
  Oomd::Engine::Engine engine(std::move(rss), {});
  OomdContext ctx;
  for (int t = 0; t < H_T; t++) {
    vf_clock_advance(vf_nd(K_TICKADV, 0, (int64_t)TICK_ADV_MAX_S * 1000000000LL));
    vfh::g_tick = t;
    vf_event(EV_TICK, t, vf_clock_ns(), 0, 0);
    engine.prerun(ctx);
    engine.runOnce(ctx);
  }
  vf_event(EV_END, 0, 0, 0, 0);
}
