/* Oracle for C02 / C05 / C06: the recorded plugin-call log must equal the log of a reference engine evaluated over
 * the recorded plugin verdicts and clock readings.
 * Events are kept in slots addressed by concrete (tick, ruleset, group, detector/action) indices together with their
 * global sequence number; the reference engine then predicts the sequence number of every event. */
#include "vf_rt.h"
#include "vf_events.h"
#include "engine_cfg.h"
void harness(void);
int vf_native_finish(void);
#define NS 1000000000LL
#define cfg_sil vf_cfg[CFG_SIL]
#define cfg_delay vf_cfg[CFG_DELAY]
#define cfg_override(r, a) vf_cfg[CFG_OV + (r)][a]
#define R_ H_MAXR
#define G_ H_MAXG
#define D_ H_MAXD
#define A_ H_MAXA

struct slot { int cnt; int64_t seq, b, c, d; };
static int cur_t = -1;
static struct slot s_tick[H_T], s_pre_det[H_T][R_][G_][D_], s_pre_act[H_T][R_][A_], s_run_det[H_T][R_][G_][D_], s_run_act[H_T][R_][A_], s_ctx_act[H_T][R_][A_], s_end;
static int n_other;   /* events that fit no slot (unknown plugin id, wrong phase, ...) */

static void put(struct slot* s, int64_t b, int64_t c, int64_t d) { s->cnt++; s->seq = vf_seq; s->b = b; s->c = c; s->d = d; }
void vf_on_event(int kind, int64_t a, int64_t b, int64_t c, int64_t d) {
  if (kind == EV_TICK) { cur_t = (int)a; if (cur_t >= 0 && cur_t < H_T) put(&s_tick[cur_t], b, c, d); else n_other++; return; }
  if (kind == EV_END) { put(&s_end, b, c, d); return; }
  if (kind == EV_STAT || kind == EV_LOGCTL) { vf_seq--; return; }   /* not part of the call log */
  if (kind == EV_PRERUN || kind == EV_RUN || kind == EV_CTX) {
    int r = (int)(a / 1000), rem = (int)(a % 1000);
    if (cur_t < 0 || cur_t >= H_T || r < 0 || r >= R_) { n_other++; return; }
    if (rem >= 100) {
      int ai = rem - 100;
      if (ai >= A_) { n_other++; return; }
      put(kind == EV_PRERUN ? &s_pre_act[cur_t][r][ai] : kind == EV_RUN ? &s_run_act[cur_t][r][ai] : &s_ctx_act[cur_t][r][ai], b, c, d);
    } else {
      int g = (rem - 1) / 10, di = (rem - 1) % 10;
      if (rem < 1 || g >= G_ || di >= D_ || kind == EV_CTX) { n_other++; return; }
      put(kind == EV_PRERUN ? &s_pre_det[cur_t][r][g][di] : &s_run_det[cur_t][r][g][di], b, c, d);
    }
    return;
  }
  n_other++;
}

int main(void) {
  vf_global_ctors();
  vf_run_harness(harness);
  VF_CHECK(vf_exc == 0, "no exception escapes the engine");
  int64_t paused_until[R_]; int susp[R_], susp_grp[R_]; int64_t susp_uuid[R_], susp_to[R_];
  for (int r = 0; r < R_; r++) { paused_until[r] = 0; susp[r] = -1; susp_grp[r] = 0; susp_uuid[r] = 0; susp_to[r] = 0; }
  int64_t uuid_ctr = 0, now = 0, exp = 0;
  VF_CHECK(n_other == 0, "C02: no event outside the configured plugins and ticks");
  for (int t = 0; t < H_T; t++) {
    VF_CHECK(s_tick[t].cnt == 1 && s_tick[t].seq == exp, "harness: tick marker"); exp++;
    VF_CHECK(s_tick[t].b >= now, "harness: clock is monotone");
    now = s_tick[t].b;
    /* prerun phase: every plugin of every ruleset exactly once, configuration order */
    for (int r = 0; r < R_; r++) {
      for (int g = 0; g < G_; g++) for (int d = 0; d < D_; d++) { VF_CHECK(s_pre_det[t][r][g][d].cnt == 1 && s_pre_det[t][r][g][d].seq == exp, "C02: every detector prerun exactly once per tick in configuration order"); exp++; }
      for (int a = 0; a < A_; a++) { VF_CHECK(s_pre_act[t][r][a].cnt == 1 && s_pre_act[t][r][a].seq == exp, "C02: every action prerun exactly once per tick in configuration order"); exp++; }
    }
    /* run phase */
    for (int r = 0; r < R_; r++) {
      int logen = !(cfg_sil[r] & 2);
      int fired = -1;
      for (int g = 0; g < G_; g++) {
        int ok = 1;
        for (int d = 0; d < D_; d++) {
          struct slot* s = &s_run_det[t][r][g][d];
          VF_CHECK(s->cnt == 1 && s->seq == exp, "C02: every detector runs exactly once per tick in configuration order"); exp++;
          VF_CHECK(VF_CTX_LOGEN(s->c) == logen, "C02: plugin logs silenced exactly when silence-logs names plugins");
          if (s->b == RET_STOP) ok = 0;
        }
        if (ok && fired < 0) fired = g;
      }
      int64_t cur_uuid = 0, cur_to = 0;
      if (fired >= 0) { uuid_ctr++; cur_uuid = uuid_ctr; cur_to = now + PREKILL_TIMEOUT_S * NS; }
      int start = -1, grp = 0; int64_t uuid = 0, to = 0; int resumed = 0;
      if (now < paused_until[r]) { if (fired >= 0) VF_REACH("group fires while ruleset is inside its post-action pause"); }
      else if (susp[r] >= 0) { start = susp[r]; grp = susp_grp[r]; uuid = susp_uuid[r]; to = susp_to[r]; susp[r] = -1; resumed = 1; if (fired < 0) VF_REACH("suspended chain resumed on a tick where no detector group fires"); else VF_REACH("suspended chain resumed while a group fires"); }
      else if (fired >= 0) { start = 0; grp = fired; uuid = cur_uuid; to = cur_to; if (paused_until[r] != 0 && now == paused_until[r]) VF_REACH("chain starts on a tick exactly at t+d"); }
      int stopped = 0;
      for (int a = 0; a < A_; a++) {
        struct slot* s = &s_run_act[t][r][a];
        struct slot* x = &s_ctx_act[t][r][a];
        if (start < 0 || a < start || stopped) {
          VF_CHECK(s->cnt == 0, "C02/C05/C06: an action runs only when its chain starts or resumes (group fired, not paused, not beyond a STOP/ASYNC)");
          continue;
        }
        VF_CHECK(s->cnt == 1 && s->seq == exp, "C02: action chain runs in configured order from the right action"); exp++;
        VF_CHECK(VF_CTX_RS(s->c) == r && VF_CTX_GRP(s->c) == grp, "C02: action sees its ruleset and the first firing detector group");
        VF_CHECK(VF_CTX_LOGEN(s->c) == logen, "C02: plugin logs silenced exactly when silence-logs names plugins");
        VF_CHECK(VF_CTX_INV(s->c) == 1, "C05: invoking ruleset available to every running action (needed for plugin post_action_delay)");
        int ret = (int)s->b; now = s->d;
        VF_CHECK(x->cnt == 1 && x->seq == exp, "harness: context event follows action run"); exp++;
        if (resumed) { VF_CHECK(x->b == uuid, "C06: resumed action sees the run uuid it was fired with"); VF_CHECK(x->c == to, "C06: resumed action sees the prekill deadline it was fired with"); }
        else { VF_CHECK(x->b == uuid, "C06: a new chain gets a fresh run uuid"); VF_CHECK(x->c == to, "C07: prekill deadline = fire time + prekill_hook_timeout"); }
        VF_CHECK(x->d == -1, "C06: no target cgroup for a ruleset without cgroup");
        if (ret == RET_CONTINUE) { if (a + 1 == A_) VF_REACH("chain ends by running off its end"); continue; }
        stopped = 1;
        if (ret == RET_STOP) {
          int64_t dl = cfg_override(r, a) ? (int64_t)cfg_override(r, a) - 1 : (int64_t)cfg_delay[r];
          paused_until[r] = now + dl * NS;
          if (resumed) VF_REACH("STOP after an async resume");
        } else {
          susp[r] = a; susp_grp[r] = grp; susp_uuid[r] = uuid; susp_to[r] = to;
          VF_REACH("action returned ASYNC_PAUSED");
        }
      }
    }
  }
  VF_CHECK(s_end.cnt == 1 && s_end.seq == exp, "C02: log ends where the reference engine ends"); exp++;
  VF_CHECK(exp == vf_seq, "C02: no events beyond those the reference engine predicts");
  VF_CHECK(0, "WITNESS: oracle reached its end");
#ifndef __CPROVER__
  return vf_native_finish();
#endif
  return 0;
}
