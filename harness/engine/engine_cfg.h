/* configuration chosen by the harness, shared with the C oracle (types follow ll2c's mapping: unsigned fixed width) */
#ifndef ENGINE_CFG_H
#define ENGINE_CFG_H
#include <stdint.h>
#ifndef H_MAXR
#define H_MAXR 2
#endif
#ifndef H_MAXG
#define H_MAXG 2
#endif
#ifndef H_MAXD
#define H_MAXD 2
#endif
#ifndef H_MAXA
#define H_MAXA 2
#endif
#ifndef H_T
#define H_T 2
#endif
enum { CFG_R = 0, CFG_G = 1, CFG_A = 2, CFG_SIL = 3, CFG_DELAY = 4, CFG_D = 5 /* +r */, CFG_OV = 7 /* +r */ };
#define DET_ID(r, g, d) ((r) * 1000 + (g) * 10 + (d) + 1)
#define ACT_ID(r, a) ((r) * 1000 + 100 + (a))
#define PREKILL_TIMEOUT_S 5
#endif
