// Harness for the leaves of the real util/Fs.cpp (C15 raw values parse exactly; C10 absent / empty / unreadable control
// files; C03 prefer/avoid precedence): one control-file reader per variant (H_FN), run over a libc-level file model whose
// single file has symbolic presence, symbolic content of H_LEN bytes (per-position character class H_TPL) and a symbolic
// read error, or - for the xattr reader - four symbolic xattr presence bits and a symbolic fgetxattr failure.
#include "libc_redirect_fs.h"
#include "prelude.h"
#include "oomd/util/Fs.h"
#include <errno.h>
using namespace Oomd;
#ifndef H_FN
#define H_FN 2
#endif
#ifndef H_LEN
#define H_LEN 3
#endif
#ifndef H_TPL
#define H_TPL "AAAAAAAAAAAAAAAAAAAAAAAAAAAAAAAA"
#endif
enum { DIRFD = 7, FILEFD = 20 };
static char g_buf[H_LEN + 1]; static int g_present, g_rderr, g_pos, g_open, g_nopen, g_nclose;
static int g_x[4], g_xerr;   // trusted.oomd_prefer, user.oomd_prefer, trusted.oomd_avoid, user.oomd_avoid; index of the failing probe (-1 none)
static char g_stream;
static bool streq(const char* a, const char* b) { int i = 0; for (; i < 40 && a[i] && b[i]; i++) if (a[i] != b[i]) return false; return a[i] == b[i]; }
#if !VF_MODEL
// real build: the control file is a real descriptor (memfd with the same bytes; a directory descriptor when the file is
// to be unreadable: read(2) on it fails), so that the real stdio (fdopen / getline / fclose) runs on it
#include <sys/mman.h>
extern "C" int vfx_fsk_openat(int dirfd, const char* path) {
  (void)path;
  if (dirfd != DIRFD && dirfd != -100) vf_fail("env: openat on a directory fd the harness never handed out");
  if (!g_present) { errno = ENOENT; return -1; }
  if (g_rderr) return ::vfx_fs_real_open_dir();
  int fd = ::memfd_create("vf", 0);
  if (fd < 0 || ::write(fd, g_buf, H_LEN) != H_LEN || ::lseek(fd, 0, SEEK_SET) != 0) vf_fail("env: memfd");
  return fd;
}
#else
extern "C" {
int vfx_fsk_openat(int dirfd, const char* path) {
  (void)path;
  if (dirfd != DIRFD && dirfd != -100) vf_fail("env: openat on a directory fd the harness never handed out");
  if (!g_present) { errno = ENOENT; return -1; }
  if (g_open) vf_fail("env: control file opened twice without close");
  g_open = 1; g_nopen++; g_pos = 0; return FILEFD;
}
FILE* vfx_fs_fdopen(int fd, const char*) { if (fd != FILEFD || !g_open) vf_fail("env: fdopen on a closed or foreign fd"); return (FILE*)&g_stream; }
ssize_t vfx_fs_getline(char** line, size_t* len, FILE* fp) {
  if (fp != (FILE*)&g_stream || !g_open) vf_fail("env: getline on a closed or foreign stream");
  // (the read position advances identically whether or not the read is made to fail: model state that differs between the
  // two cases would turn the caller's read loop into a symbolic-length loop)
  if (g_pos >= H_LEN) { if (g_rderr) errno = EIO; return -1; }
  if (*line == nullptr) { *line = (char*)::malloc(H_LEN + 2); *len = H_LEN + 2; }
  char* b = *line; int k = 0;
  for (int i = 0; i < H_LEN; i++) { if (g_pos >= H_LEN) break; char c = g_buf[g_pos++]; b[k++] = c; if (c == '\n') break; }
  b[k] = 0;
  if (g_rderr) { errno = EIO; return -1; }
  return k;
}
int vfx_fs_fclose(FILE* fp) { if (fp != (FILE*)&g_stream || !g_open) vf_fail("env: fclose on a closed or foreign stream (double close)"); g_open = 0; g_nclose++; return 0; }
int vfx_fs_close(int fd) { if (fd == FILEFD) { if (!g_open) vf_fail("env: double close of the control file fd"); g_open = 0; g_nclose++; } return 0; }
}
#endif
extern "C" {
ssize_t vfx_fs_fgetxattr(int fd, const char* name, void* value, size_t size) {
  if (fd != DIRFD) vf_fail("env: fgetxattr on a foreign fd");
  (void)value; (void)size;
  static const char* kNames[4] = {"trusted.oomd_prefer", "user.oomd_prefer", "trusted.oomd_avoid", "user.oomd_avoid"};
  for (int i = 0; i < 4; i++) if (streq(name, kNames[i])) {
    if (g_xerr == i) { errno = EIO; return -1; }
    if (g_x[i]) return 1;
    errno = ENODATA; return -1;
  }
  vf_fail("env: unexpected xattr name");
  return -1;
}
}
static const char kA[] = "019-max \n";   // class A: every character class of the numeric control files
static const char kE[] = "01x2p";        // class E: cgroup.events style content (structure - blanks, line breaks - is fixed by the template)
// reference reading of the file: lines (terminator stripped), as the kernel grammar defines them
struct Lines { int n; int beg[H_LEN + 1], end[H_LEN + 1]; };
static Lines split_lines() { Lines L; L.n = 0; int s = 0; for (int i = 0; i < H_LEN; i++) if (g_buf[i] == '\n') { L.beg[L.n] = s; L.end[L.n] = i; L.n++; s = i + 1; } if (s < H_LEN) { L.beg[L.n] = s; L.end[L.n] = H_LEN; L.n++; } return L; }
static bool all_digits(int b, int e) { if (e <= b) return false; for (int i = b; i < e; i++) if (g_buf[i] < '0' || g_buf[i] > '9') return false; return true; }
static int64_t dec(int b, int e) { int64_t v = 0; for (int i = b; i < e; i++) v = v * 10 + (g_buf[i] - '0'); return v; }
static bool is_word(int b, int e, const char* w) { int i = 0; for (; b + i < e && w[i]; i++) if (g_buf[b + i] != w[i]) return false; return b + i == e && w[i] == 0; }
extern "C" void harness(void) {
  static const char kTpl[] = H_TPL;
  g_present = (int)vf_nd(1, 0, 1); g_rderr = (int)vf_nd(2, 0, 1);
  for (int i = 0; i < H_LEN; i++) {
    char ch;
    if (kTpl[i] == 'A') ch = kA[vf_nd(10 + i, 0, (int)sizeof(kA) - 2)];
    else if (kTpl[i] == 'E') ch = kE[vf_nd(10 + i, 0, (int)sizeof(kE) - 2)];
    else if (kTpl[i] == 'D') ch = (char)('0' + vf_nd(10 + i, 0, 9));
    else if (kTpl[i] == 'B') ch = (char)('0' + vf_nd(10 + i, 0, 1));
    else if (kTpl[i] == 'n') ch = '\n';
    else ch = kTpl[i];
    g_buf[i] = ch;
  }
  g_buf[H_LEN] = 0;
  Fs::DirFd dir(DIRFD);
  bool usable = g_present && !g_rderr;
  Lines L = split_lines();
#if H_FN == 1
  for (int i = 0; i < 4; i++) g_x[i] = (int)vf_nd(40 + i, 0, 1);
  g_xerr = (int)vf_nd(44, -1, 3);
  auto r = Fs::readKillPreferenceAt(dir);
  // reference: probes in the documented order prefer (trusted, user) then avoid (trusted, user); the first hit decides; a
  // failing probe before any hit is an error
  int want = 0; bool err = false;
  for (int i = 0; i < 4 && !want && !err; i++) { if (g_xerr == i) err = true; else if (g_x[i]) want = i < 2 ? 1 : 2; }
  if ((g_x[0] || g_x[1]) && g_xerr < 0) vf_check(r && *r == KillPreference::PREFER, "C03/C15: a cgroup marked prefer (trusted. or user.) reads as PREFER, prefer winning if an avoid mark is set as well");
  else if ((g_x[2] || g_x[3]) && g_xerr < 0) vf_check(r && *r == KillPreference::AVOID, "C03/C15: a cgroup marked only avoid reads as AVOID");
  else if (g_xerr < 0) vf_check(r && *r == KillPreference::NORMAL, "C03/C15: an unmarked cgroup reads as NORMAL");
  if (err) vf_check(!r, "C10: a failing xattr probe is reported as unavailable, not guessed");
  if (g_x[1] && g_x[2] && !g_x[0] && g_xerr < 0) vf_check(false, "REACH: user prefer together with trusted avoid");
#else
  // numeric / keyword control files
  SystemMaybe<int64_t> r = SYSTEM_ERROR(EINVAL);
  bool limit_file = false, hightmp = false;
#if H_FN == 2
  r = Fs::readMemcurrentAt(dir);
#elif H_FN == 3
  r = Fs::readMemhighAt(dir); limit_file = true;
#elif H_FN == 4
  r = Fs::readSwapCurrentAt(dir);
#elif H_FN == 5
  r = Fs::readPidsCurrentAt(dir);
#elif H_FN == 6
  r = Fs::readMemmaxAt(dir); limit_file = true;
#elif H_FN == 7
  r = Fs::readMemminAt(dir); limit_file = true;
#elif H_FN == 8
  r = Fs::readMemlowAt(dir); limit_file = true;
#elif H_FN == 9
  r = Fs::readSwapMaxAt(dir); limit_file = true;
#elif H_FN == 10
  r = Fs::readMemhightmpAt(dir); hightmp = true;
#elif H_FN == 11
  { auto b = Fs::readIsPopulatedAt(dir); if (b) r = *b ? 1 : 0; else r = SYSTEM_ERROR(b.error()); }
#elif H_FN == 12
  { auto b = Fs::readMemoryOomGroupAt(dir); if (b) r = *b ? 1 : 0; else r = SYSTEM_ERROR(b.error()); }
#endif
#if VF_MODEL
  vf_check(g_open == 0 && g_nopen == g_nclose, "C10/C15: every control file that was opened is closed again (no fd leak per tick)");
#endif
  if (!usable) vf_check(!r, "C10: an absent or unreadable control file makes the statistic unavailable");
  else if (L.n == 0) {
#if H_FN == 12
    vf_check(r && *r == 0, "C15: an empty memory.oom.group reads as not set");
#else
    vf_check(!r, "C10: an empty control file makes the statistic unavailable (no crash, no undefined behaviour)");
#endif
    vf_check(false, "REACH: empty control file");
  } else {
#if H_FN == 11
    // cgroup.events: the line "populated 0|1" decides
    int want = -1;
    for (int i = 0; i < L.n && want < 0; i++) { int b = L.beg[i], e = L.end[i]; if (e - b == 11 && is_word(b, b + 9, "populated") && g_buf[b + 9] == ' ') { if (g_buf[b + 10] == '1') want = 1; else if (g_buf[b + 10] == '0') want = 0; else want = 2; } }
    if (want == 0 || want == 1) { vf_check(r && *r == want, "C15: cgroup.events populated flag parses exactly"); vf_check(false, "REACH: populated flag read"); }
#elif H_FN == 12
    bool one = L.n == 1 && is_word(L.beg[0], L.end[0], "1");
    vf_check(r && *r == (one ? 1 : 0), "C15: memory.oom.group is set exactly when the file reads 1");
#else
    // in the kernel's grammar: exactly one line, digits (or "max" for limit files; "max 0" / "N 0" for memory.high.tmp)
    int b = L.beg[0], e = L.end[0];
    if (hightmp) { int sp = -1; for (int i = b; i < e; i++) if (g_buf[i] == ' ' && sp < 0) sp = i; if (L.n == 1 && sp > b && all_digits(sp + 1, e)) { if (is_word(b, sp, "max")) { vf_check(r && *r == INT64_MAX, "C15: memory.high.tmp max parses as unlimited"); } else if (all_digits(b, sp) && sp - b <= 18) { vf_check(r && *r == dec(b, sp), "C15: memory.high.tmp parses exactly"); vf_check(false, "REACH: numeric value parsed"); } } }
    else if (L.n == 1 && limit_file && is_word(b, e, "max")) { vf_check(r && *r == INT64_MAX, "C15: `max` in a memory limit file reads as unlimited (INT64_MAX)"); vf_check(false, "REACH: max parsed"); }
    else if (L.n == 1 && all_digits(b, e) && (e - b <= 18 || (e - b == 19 && g_buf[b] < '9'))) { vf_check(r && *r == dec(b, e), "C15: numeric control file parses exactly"); vf_check(false, "REACH: numeric value parsed"); }
#endif
  }
#endif
  vf_event(EV_END, 0, 0, 0, 0);
}
