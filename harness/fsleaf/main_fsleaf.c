#include "vf_rt.h"
#include "vf_events.h"
void harness(void);
int vf_native_finish(void);
void vf_on_event(int kind, int64_t a, int64_t b, int64_t c, int64_t d) {}
int main(void) {
  vf_global_ctors();
  vf_run_harness(harness);
  /* exceptions: std::stoll on a line outside the kernel's grammar throws; whether that may escape is not judged here
   * (C10 lists absent / empty / unreadable files, which are judged in the harness) */
  VF_CHECK(0, "WITNESS: harness reached its end");
#ifndef __CPROVER__
  return vf_native_finish();
#endif
  return 0;
}
