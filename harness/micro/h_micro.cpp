#include "prelude.h"
#include "world.h"
#include "oomd/OomdContext.h"
#include "scripted.h"
#include "oomd/engine/Ruleset.h"
using namespace Oomd;
extern "C" void harness(void) {
#if H_MICRO >= 10
  getPluginRegistry().add("s", []() -> Oomd::Engine::BasePlugin* { return new vfh::Scripted(); });
  Oomd::Engine::BasePlugin* pl = getPluginRegistry().create("s");
  vf_event(EV_NOTE, pl != nullptr, 0, 0, 0);
#if H_MICRO >= 11
  pl->setName("s");
#endif
#if H_MICRO >= 12
  Oomd::Engine::PluginArgs args; args["id"] = "1";
#endif
#if H_MICRO >= 13
  int rc = pl->initPlugin(args, PluginConstructionContext("/c"));
  vf_event(EV_NOTE, rc, 0, 0, 0);
#endif
#if H_MICRO == 15
  { Oomd::Engine::PluginArgs b2; b2["id"] = std::to_string(7); vf_event(EV_NOTE, (int)b2.size(), 0, 0, 0); }
#endif
#if H_MICRO == 16
  { Oomd::Engine::BasePlugin* q = getPluginRegistry().create("s"); q->setName("s"); Oomd::Engine::PluginArgs b2; b2["id"] = std::to_string(7); int rc2 = q->initPlugin(b2, PluginConstructionContext("/c")); vf_event(EV_NOTE, rc2, 0, 0, 0); }
#endif
#if H_MICRO == 17
  { std::vector<std::unique_ptr<Oomd::Engine::BasePlugin>> ds; ds.emplace_back(pl); std::vector<std::unique_ptr<Oomd::Engine::DetectorGroup>> dgs; dgs.emplace_back(new Oomd::Engine::DetectorGroup("g0", std::move(ds))); vf_event(EV_NOTE, (int)dgs.size(), 0, 0, 0); }
#endif
#if H_MICRO == 18
  { int dl = (int)vf_nd(4, 0, 20); std::vector<std::unique_ptr<Oomd::Engine::BasePlugin>> ds; ds.emplace_back(pl); std::vector<std::unique_ptr<Oomd::Engine::DetectorGroup>> dgs; dgs.emplace_back(new Oomd::Engine::DetectorGroup("g0", std::move(ds))); std::vector<std::unique_ptr<Oomd::Engine::BasePlugin>> acts;
    Oomd::Engine::Ruleset rs("r0", std::move(dgs), std::move(acts), false, false, false, 0, dl, 5, "", "/c", "c*"); vf_event(EV_NOTE, 1, 0, 0, 0); }
#endif
#if H_MICRO == 14
  auto a2 = pl->getPluginArgs(); a2.try_emplace("cgroup", "c0");
  Oomd::Engine::BasePlugin* q = getPluginRegistry().create("s"); q->setName("s"); q->init(a2, PluginConstructionContext("/c"));
#endif
#else
  vfw::add("", "", -1); vfw::add("a", "a", 0); vfw::add("b", "b", 0);
#if H_MICRO >= 1
  CgroupPath p("/c", "*");
  auto v = p.resolveWildcard();
  vf_event(EV_NOTE, (int)v.size(), 0, 0, 0);
#endif
#if H_MICRO >= 2
  OomdContext ctx;
  std::unordered_set<CgroupPath> s; s.insert(p);
  auto r = ctx.addToCacheAndGet(s);
  vf_event(EV_NOTE, (int)r.size(), 0, 0, 0);
#endif
#if H_MICRO == 3
  for (const CgroupContext& c : r) vf_event(EV_NOTE, 7, c.nr_dying_descendants().value_or(-1), 0, 0);
#endif
#if H_MICRO == 4
  for (const CgroupContext& c : r) vf_event(EV_NOTE, 7, c.anon_usage().value_or(-1), 0, 0);
#endif
#if H_MICRO == 5
  { auto mm = Fs::getMemstatAt(r[0].get().fd()); vf_event(EV_NOTE, 8, mm ? (int)mm->size() : -1, 0, 0); auto it = mm->find("anon"); vf_event(EV_NOTE, 9, it != mm->end(), 0, 0); }
#endif
#if H_MICRO == 6
  { std::optional<std::unordered_map<std::string, int64_t>> f; auto mm = Fs::getMemstatAt(r[0].get().fd()); f = std::move(*mm); auto it = f->find("anon"); vf_event(EV_NOTE, 9, it != f->end(), 0, 0); }
#endif
#endif
}
