// Harness for C12 (sizes): the real Util::parseSize / parseSizeOrPercent on a symbolic string of length H_LEN over a
// small alphabet that contains every character class the grammar distinguishes.
#include "prelude.h"
#include "oomd/util/Util.h"
using namespace Oomd;
#ifndef H_LEN
#define H_LEN 3
#endif
#ifndef H_MODE
#define H_MODE 0   /* 0 parseSize, 1 parseSizeOrPercent */
#endif
static const char kAlpha[] = "0159.+-%kKmgtenaifx ";
extern "C" void harness(void) {
  std::string s;
#ifdef H_TPL
  // template variants: position i ranges over the character class H_TPL[i] (D digit, U unit letter, P '.', A whole alphabet):
  // long strings around the 2^63 boundary ("8388608t") that the whole-alphabet variants cannot reach
  static const char kTpl[] = H_TPL; static const char kDig[] = "0123456789"; static const char kUnit[] = "kmgtKMGT";
  for (int i = 0; i < H_LEN; i++) {
    char ch;
    if (kTpl[i] == 'D') ch = kDig[vf_nd(10 + i, 0, 9)];
    else if (kTpl[i] == 'U') ch = kUnit[vf_nd(10 + i, 0, 7)];
    else if (kTpl[i] == 'A') ch = kAlpha[vf_nd(10 + i, 0, (int)sizeof(kAlpha) - 2)];
    else ch = kTpl[i];
    s.push_back(ch);
    vf_cfg_set(0, i, (unsigned char)ch);
  }
#else
  for (int i = 0; i < H_LEN; i++) {
    int c = (int)vf_nd(10 + i, 0, (int)sizeof(kAlpha) - 2);
    s.push_back(kAlpha[c]);
    vf_cfg_set(0, i, (unsigned char)kAlpha[c]);
  }
#endif
  int64_t out = 0x5a5a5a5a;
  int rc;
  if (H_MODE == 0) rc = Util::parseSize(s, &out);
  else rc = Util::parseSizeOrPercent(s, &out, 1000000007LL);
  vf_event(EV_NOTE, rc, out, 0, 0);
}
