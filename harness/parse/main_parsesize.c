/* Oracle for C12 (sizes): exact reference reading of the size grammar in integer arithmetic.
 *   size    := ws* sign? term+            (whitespace anywhere is ignored, letters are case-insensitive)
 *   term    := number unit | number       (a unit-less number is only allowed as the last term: bytes)
 *   number  := digits [. digits] | . digits        (non-negative decimal; no exponent, no inf/nan)
 *   unit    := k | m | g | t
 * value = sum of number * 2^(10*u); fractional bytes are truncated per term; the total must fit int64.
 * parseSizeOrPercent: "N%" (0..100, integer) -> total*N/100; a bare integer -> megabytes; otherwise as above. */
#include "vf_rt.h"
#include "vf_events.h"
#ifndef H_LEN
#define H_LEN 3
#endif
#ifndef H_MODE
#define H_MODE 0
#endif
void harness(void);
int vf_native_finish(void);
static int got_rc, seen; static int64_t got_out;
void vf_on_event(int kind, int64_t a, int64_t b, int64_t c, int64_t d) { if (kind == EV_NOTE) { got_rc = (int)a; got_out = b; seen++; } }
static int isws(int c) { return c == ' '; }
static int lc(int c) { return (c >= 'A' && c <= 'Z') ? c + 32 : c; }
/* reference: returns 1 and *val if the string is a valid size, 0 if it must be rejected, 2 if the documentation does not
 * settle it (double sign, ".5" without integer part, in-range exponent notation, empty string): not judged. */
static const uint64_t P10[20] = {1ULL, 10ULL, 100ULL, 1000ULL, 10000ULL, 100000ULL, 1000000ULL, 10000000ULL, 100000000ULL, 1000000000ULL, 10000000000ULL, 100000000000ULL, 1000000000000ULL, 10000000000000ULL, 100000000000000ULL, 1000000000000000ULL, 10000000000000000ULL, 100000000000000000ULL, 1000000000000000000ULL, 10000000000000000000ULL};
static int ref_size(const unsigned char* s, int n, int64_t* val) {
  unsigned char b[H_LEN + 1]; int m = 0;
  for (int i = 0; i < n; i++) if (!isws(s[i])) b[m++] = (unsigned char)lc(s[i]);
  int p = 0, neg = 0, unsure = 0;
  if (p < m && (b[p] == '+' || b[p] == '-')) { neg = b[p] == '-'; p++; }
  if (p >= m) return 2;
  if (b[p] == '+' || b[p] == '-') return 2;
  unsigned __int128 total = 0; int overflow = 0;
  int first_term = 1;
  while (p < m) {
    uint64_t ip = 0, fp = 0, fden = 1; int nd = 0, nf = 0;
    /* a sign in front of a later term ("1t+0"): the documentation does not say whether a size is a signed sum; not judged */
    if (!first_term && p < m && (b[p] == '+' || b[p] == '-')) { unsure = 1; p++; }
    first_term = 0;
    while (p < m && b[p] >= '0' && b[p] <= '9') { ip = ip * 10 + (b[p] - '0'); nd++; p++; }
    if (p < m && b[p] == '.') { p++; while (p < m && b[p] >= '0' && b[p] <= '9') { fp = fp * 10 + (b[p] - '0'); fden *= 10; nf++; p++; } }
    if (nd + nf == 0) return 0;          /* no number where one is required (covers nan / inf / stray letters / lone '.') */
    if (nd == 0) unsure = 1;
    int e10 = 0;
    if (p < m && b[p] == 'e') {
      int q = p + 1, eneg = 0, ed = 0, ev = 0;
      if (q < m && (b[q] == '+' || b[q] == '-')) { eneg = b[q] == '-'; q++; }
      while (q < m && b[q] >= '0' && b[q] <= '9') { if (ev < 1000) ev = ev * 10 + (b[q] - '0'); ed++; q++; }
      if (ed == 0) return 0;              /* dangling 'e' is trailing garbage */
      e10 = eneg ? -ev : ev; unsure = 1; p = q;
    }
    int sh = 0;
    if (p < m) { int u = b[p]; if (u == 'k') sh = 10; else if (u == 'm') sh = 20; else if (u == 'g') sh = 30; else if (u == 't') sh = 40; else return 0; p++; }
    unsigned __int128 num = (unsigned __int128)ip * fden + fp;   /* value = num / fden * 10^e10 * 2^sh */
    unsigned __int128 den = fden;
    if (e10 > 0) { if (e10 > 19) { if (num != 0) overflow = 1; } else num *= P10[e10]; }
    else if (e10 < 0) { if (-e10 > 19) num = 0; else den *= P10[-e10]; }
    unsigned __int128 term = (num << sh) / den;
    if (term > (unsigned __int128)INT64_MAX) overflow = 1;
    total += term;
    if (total > (unsigned __int128)INT64_MAX) overflow = 1;
  }
  if (overflow) return 0;                 /* overflow must be rejected, however it was written */
  if (unsure) return 2;
  *val = neg ? -(int64_t)total : (int64_t)total;
  return 1;
}
int main(void) {
  vf_global_ctors();
  vf_run_harness(harness);
  VF_CHECK(vf_exc == 0, "C12: no exception escapes the size parser");
  VF_CHECK(seen == 1, "harness: parser returned");
  unsigned char s[H_LEN + 1];
  for (int i = 0; i < H_LEN; i++) s[i] = (unsigned char)vf_cfg[0][i];
  int64_t want = 0; int r;
  if (H_MODE == 0) r = ref_size(s, H_LEN, &want);
  else {
    /* percent / bare megabytes first */
    int n = H_LEN; r = -1;
    if (n > 0 && s[n - 1] == '%') {
      int p = 0, ws = 0; while (p < n - 1 && isws(s[p])) { p++; ws = 1; }
      int neg = 0; if (p < n - 1 && (s[p] == '+' || s[p] == '-')) { neg = s[p] == '-'; p++; }
      int64_t v = 0; int nd = 0; while (p < n - 1 && s[p] >= '0' && s[p] <= '9') { v = v * 10 + (s[p] - '0'); nd++; p++; }
      while (p < n - 1 && isws(s[p])) { p++; ws = 1; }
      if (nd == 0 || p != n - 1) r = 0;            /* "N%" with anything but an integer N is invalid (fractions, letters) */
      else if (neg ? v != 0 : v > 100) r = 0;
      else if (ws) r = 2;                          /* blanks inside a percentage: not settled by the documentation */
      else { want = 1000000007LL * v / 100; r = 1; }
    } else {
      int p = 0; while (p < n && isws(s[p])) p++;
      int lead_ws = p > 0;
      int neg = 0, q = p; if (q < n && (s[q] == '+' || s[q] == '-')) { neg = s[q] == '-'; q++; }
      int64_t v = 0; int nd = 0; while (q < n && s[q] >= '0' && s[q] <= '9') { v = v * 10 + (s[q] - '0'); nd++; q++; }
      if (nd > 0 && q == n) { want = (neg ? -v : v) * (1LL << 20); r = 1; (void)lead_ws; }
      else if (q > p && q < n && isws(s[q])) r = 2;   /* blank right after the sign: not settled */
      else r = ref_size(s, n, &want);
    }
  }
  if (r == 1) {
    VF_CHECK(got_rc == 0, "C12: a valid size string is accepted");
    VF_CHECK(got_rc != 0 || got_out == want, "C12: an accepted size evaluates to the exact byte count");
    VF_REACH("valid size accepted");
  } else if (r == 0) {
    VF_CHECK(got_rc != 0, "C12: an invalid, non-finite or overflowing size string is rejected");
    VF_REACH("invalid size judged");
  }
  VF_CHECK(0, "WITNESS: oracle reached its end");
#ifndef __CPROVER__
  return vf_native_finish();
#endif
  return 0;
}
