// Harness for C01 / C03 / C04 / C17: the real BaseKillPlugin (run, tryToKillSomething, resumeTryingToKillSomething,
// tryToLogAndKillCgroup, tryToKillCgroup, getAndTryToKillPids, tryToKillPids, reap*, report*ToXattr), the real
// OomdContext / CgroupContext / CgroupPath and OomdContext::sortDescWithKillPrefs over the Fs-API world.
// The concrete plugin ranks by a symbolic per-cgroup metric through the real sortDescWithKillPrefs (the five real
// ranking functions are the subject of C09).
#include "prelude.h"
#include "world.h"
#include "oomd/OomdContext.h"
#include "oomd/engine/Ruleset.h"
#include "oomd/plugins/BaseKillPlugin.h"
#include "kill_cfg.h"
using namespace Oomd;
enum { K_FLAG = 10, K_NODE = 100, K_PID = 200, K_X = 300 };
struct SymKill : BaseKillPlugin {
  std::vector<OomdContext::ConstCgroupContextRef> rankForKilling(OomdContext&, const std::vector<OomdContext::ConstCgroupContextRef>& cgroups) override {
    return OomdContext::sortDescWithKillPrefs(cgroups, [](const CgroupContext& c) { return c.current_usage().value_or(0); });
  }
  void ologKillTarget(OomdContext&, const CgroupContext&, const std::vector<OomdContext::ConstCgroupContextRef>&) override {}
#if H_MODE != 3
  // walk variants: the three accounting calls are observed at their call boundary (which cgroup, which uuid, how many
  // signals); their read-modify-write of the xattr values is the subject of the accounting variants (H_MODE 3), which run
  // the real functions. (Running them inside the walk put long symbolic-length string loops into every attempt.)
  void reportKillInitiationToXattr(const std::string& p) override { vf_event(EV_NOTE, N_XINIT, vfw::find_abs(p), 0, 0); }
  void reportKillCompletionToXattr(const std::string& p, int n) override { vf_event(EV_NOTE, N_XDONE, vfw::find_abs(p), n, 0); }
  void reportKillUuidToXattr(const std::string& p, const std::string& uuid) override { vf_event(EV_NOTE, N_XUUID, vfw::find_abs(p), vf_uuid_serial_of(uuid.c_str()), 0); }
  int dumpMemoryStat(const CgroupContext&) override { return 0; }   // logging only
#endif
  SystemMaybe<int> tryToKillCgroup(const CgroupContext& target, const KillUuid& uuid, bool dry, KillCgroupStats& stats) override {
    vf_event(EV_NOTE, N_ATTEMPT, vfw::find_abs(target.cgroup().absolutePath()), vf_uuid_serial_of(uuid.c_str()), dry);
    return BaseKillPlugin::tryToKillCgroup(target, uuid, dry, stats);
  }
};

static const char* kRel[NN] = {"", "a", "b", "a/x", "a/y"};
static const char* kName[NN] = {"", "a", "b", "x", "y"};
static const int kParent[NN] = {-1, 0, 0, 1, 1};
static void runOnce(bool dry) {
  // (plugin, context and ruleset are never destroyed: teardown is not a subject of these properties)
  SymKill& p = *new SymKill;
  p.setName("k");
#if H_PAT == 0
  p.cgroups_.insert(CgroupPath("/c", "a"));
#elif H_PAT == 1
  p.cgroups_.insert(CgroupPath("/c", "*"));
#elif H_PAT == 2
  p.cgroups_.insert(CgroupPath("/c", "a")); p.cgroups_.insert(CgroupPath("/c", "b"));
#else
  p.cgroups_.insert(CgroupPath("/c", "a/*"));
#endif
  p.recursive_ = vf_cfg_get(CFG_FLAGS, 0); p.dry_ = dry; p.kernelKill_ = vf_cfg_get(CFG_FLAGS, 2); p.reapMemory_ = vf_cfg_get(CFG_FLAGS, 3); p.alwaysContinue_ = vf_cfg_get(CFG_FLAGS, 4);
  if (vf_cfg_get(CFG_FLAGS, 5)) p.postActionDelay_ = (int)vf_cfg_get(CFG_FLAGS, 5) - 1;
  OomdContext& ctx = *new OomdContext;
  std::vector<std::unique_ptr<Engine::DetectorGroup>> nodg; std::vector<std::unique_ptr<Engine::BasePlugin>> noact;
  Engine::Ruleset& rs = *new Engine::Ruleset("r0", std::move(nodg), std::move(noact));
  ctx.setActionContext({"r0", "g0", "u0", std::chrono::steady_clock::now() + std::chrono::seconds(5), std::nullopt});
  ctx.setInvokingRuleset(&rs);
  vf_event(EV_OP, dry ? 2 : 1, 0, 0, 0);
  Engine::PluginRet r = p.run(ctx);
  vf_event(EV_NOTE, N_RET, (int)r, 0, 0);
  vf_event(EV_NOTE, N_PAUSE, rs.plugin_overrode_post_action_delay_ ? 1 : 0, rs.pause_actions_until_.time_since_epoch().count(), 0);
}
extern "C" void harness(void) {
  for (int n = 0; n < H_NODES; n++) vfw::add(kRel[n], kName[n], kParent[n]);
  for (int f = 0; f < 5; f++) vf_cfg_set(CFG_FLAGS, f, vf_nd(K_FLAG + f, 0, 1));
  vf_cfg_set(CFG_FLAGS, 5, vf_nd(K_FLAG + 5, 0, 3));
#ifdef H_NO_KERNELKILL
  vf_assume(vf_cfg_get(CFG_FLAGS, 2) == 0);
#endif
#ifdef H_NO_REAP
  vf_assume(vf_cfg_get(CFG_FLAGS, 3) == 0);
#endif
#ifdef H_KERNELKILL
  vf_assume(vf_cfg_get(CFG_FLAGS, 2) == 1);
#endif
  for (int n = 1; n < H_NODES; n++) {
    vfw::Node& nd = vfw::nodes[n];
    // ranking inputs (metric, kill preference) are concrete per variant: a symbolic rank order makes every later path
    // string symbolic (see DESIGN.md 10); everything the walk and the kill itself depend on stays symbolic
    static const int kCur[NN] = H_CUR; static const int kXa[NN] = H_XA;
    nd.populated = vf_nd(K_NODE + n * 8 + 1, 0, 1); nd.oom_group = vf_nd(K_NODE + n * 8 + 2, 0, 1); nd.xattrs = (unsigned)kXa[n];
    nd.cur = kCur[n]; nd.pids_current = vf_nd(K_NODE + n * 8 + 7, 0, 3);
    nd.npids = (int)vf_nd(K_NODE + n * 8 + 5, 0, H_NPIDS);
    int64_t packed = 0;
    for (int k = 0; k < H_NPIDS; k++) { int zero = (int)vf_nd(K_PID + n * 4 + k, 0, H_PIDZERO); nd.pids[k] = zero ? 0 : PID_OF(n, k); packed |= (int64_t)nd.pids[k] << (10 * k); }
    nd.low = nd.min = 0; nd.high = nd.max = nd.hightmp = INT64_MAX; nd.swapcur = 0; nd.swapmax = INT64_MAX; nd.anon = nd.file = nd.shmem = nd.pgscan = 0;
    vf_cfg_set(CFG_NODE + n, 0, 1); vf_cfg_set(CFG_NODE + n, 1, nd.populated); vf_cfg_set(CFG_NODE + n, 2, nd.oom_group); vf_cfg_set(CFG_NODE + n, 3, nd.xattrs);
    vf_cfg_set(CFG_NODE + n, 4, nd.cur); vf_cfg_set(CFG_NODE + n, 5, nd.npids); vf_cfg_set(CFG_NODE + n, 6, packed); vf_cfg_set(CFG_NODE + n, 7, nd.pids_current);
    for (int tu = 0; tu < 2; tu++) {
      int64_t o = vf_nd(K_X + n * 4 + tu, -1, 50), kk = vf_nd(K_X + n * 4 + 2 + tu, -1, 50);
      nd.x_has_ooms[tu] = o >= 0; nd.x_ooms[tu] = o; nd.x_has_kill[tu] = kk >= 0; nd.x_kill[tu] = kk; nd.x_uuid[tu] = 0;
      vf_cfg_set(CFG_X + n - 1, tu, o); vf_cfg_set(CFG_X + n - 1, 2 + tu, kk);
    }
  }
  vfw::meminfo_memtotal = 1LL << 30; vfw::meminfo_swaptotal = 0;
#if H_MODE == 5
  // ranking unit: the real OomdContext::sortDescWithKillPrefs over three cgroup contexts whose kill preference and metric
  // are symbolic (set directly in the cached CgroupData, the way the test helper does)
  {
    OomdContext& ctx = *new OomdContext;
    static const char* kP[3] = {"a", "b", "a/x"}; static const int kN[3] = {1, 2, 3};
    std::vector<OomdContext::ConstCgroupContextRef> v;
    for (int i = 0; i < 3; i++) {
      auto cg = ctx.addToCacheAndGet(CgroupPath("/c", kP[i]));
      if (!cg) vf_fail("harness: context");
      int pref = (int)vf_nd(K_FLAG + 20 + i, -1, 1); int64_t met = vf_nd(K_FLAG + 30 + i, 0, 3);
      cg->get().data_->kill_preference = (KillPreference)pref; cg->get().data_->current_usage = met;
      vf_cfg_set(CFG_NODE + kN[i], 3, (uint64_t)(int64_t)pref); vf_cfg_set(CFG_NODE + kN[i], 4, met);
      v.push_back(*cg);
    }
    auto sorted = OomdContext::sortDescWithKillPrefs(v, [](const CgroupContext& c) { return c.current_usage().value_or(0); });
    vf_event(EV_NOTE, N_SORTED, (int64_t)sorted.size(), 0, 0);
    for (size_t i = 0; i < sorted.size() && i < 3; i++) vf_event(EV_NOTE, N_SORTED + 1 + (int)i, vfw::find_abs(sorted[i].get().cgroup().absolutePath()), 0, 0);
  }
#elif H_MODE == 4
  // signalling unit: the real getAndTryToKillPids / tryToKillPids (cgroup.procs stream parsing, recursion into the cached
  // children, kill(2)) called for victim a and then, on the same plugin object, for victim b - the situation of a fallback
  // after a failed kill or of the next invocation. No ranking, walk or accounting around it.
  {
    SymKill& p = *new SymKill;
    OomdContext& ctx = *new OomdContext;
    static const char* kVict[2] = {"a", "b"};
    for (int i = 0; i < 2; i++) {
      auto cg = ctx.addToCacheAndGet(CgroupPath("/c", kVict[i]));
      if (!cg) vf_fail("harness: victim context");
      vf_event(EV_NOTE, N_UNITVICTIM, 1 + i, 0, 0);
      int n = p.getAndTryToKillPids(cg->get());
      vf_event(EV_NOTE, N_UNITRET, 1 + i, n, 0);
    }
  }
#elif H_MODE == 3
  // accounting unit: the real reportKillUuidToXattr / reportKillInitiationToXattr / reportKillCompletionToXattr on node 1
  // with symbolic pre-existing values (absent / 0..50, independently for trusted. and user.) and a symbolic kill count
  {
    SymKill& p = *new SymKill;
    int nk = (int)vf_nd(K_FLAG + 7, 0, 30); vf_cfg_set(CFG_FLAGS, 6, nk);
    std::string path = "/c/a";
    vf_event(EV_OP, 3, 0, 0, 0);
    p.reportKillUuidToXattr(path, "u7");
    p.reportKillInitiationToXattr(path);
    p.reportKillCompletionToXattr(path, nk);
  }
#elif H_MODE == 0
  int dry = (int)vf_nd(K_FLAG + 6, 0, 1); vf_cfg_set(CFG_FLAGS, 1, dry);
  runOnce(dry);
#else
  // C04: the same scenario wet, then dry (world restored in between: xattr accounting is the only mutable part)
  vf_cfg_set(CFG_FLAGS, 1, 2);
  runOnce(false);
  for (int n = 1; n < H_NODES; n++) for (int tu = 0; tu < 2; tu++) { vfw::Node& nd = vfw::nodes[n]; int64_t o = vf_cfg_get(CFG_X + n - 1, tu), kk = vf_cfg_get(CFG_X + n - 1, 2 + tu); nd.x_has_ooms[tu] = o >= 0; nd.x_ooms[tu] = o; nd.x_has_kill[tu] = kk >= 0; nd.x_kill[tu] = kk; nd.x_uuid[tu] = 0; }
  runOnce(true);
#endif
  vf_event(EV_END, 0, 0, 0, 0);
}
