/* Oracle for C01 (containment), C03 (victim order), C04 (dry run), C17 (accounting): an online monitor over the event
 * stream of one kill-plugin invocation (two for the wet/dry comparison), plus end-of-run checks against a reference DFS. */
#include "vf_rt.h"
#include "vf_events.h"
#include "kill_cfg.h"
#ifndef H_MODE
#define H_MODE 0
#endif
void harness(void);
int vf_native_finish(void);
enum { F_FREEZE_ = 17, F_KILL_ = 18 };   /* vfw::F_FREEZE / F_KILL */
#define SYS_pidfd_open_ 434
static const int kParent[NN] = {-1, 0, 0, 1, 1};
#define FL(i) ((int)vf_cfg[CFG_FLAGS][i])
#define ND(n, i) (vf_cfg[CFG_NODE + (n)][i])
static int in_subtree(int n, int root) { for (int i = 0; i < 3 && n >= 0; i++) { if (n == root) return 1; n = kParent[n]; } return 0; }
static int pid_node(int64_t pid) { return (int)((pid - 100) / 10); }
static int pid_listed(int64_t pid, int root) {
  if (pid < 100 || pid >= 100 + 10 * NN) return 0;
  int n = pid_node(pid), k = (int)((pid - 100) % 10);
  if (n < 1 || n >= H_NODES || !in_subtree(n, root)) return 0;
  return k < ND(n, 5) && ((ND(n, 6) >> (10 * k)) & 1023) == pid;
}
#if H_MODE == 3
/* accounting unit: the SETXATTR events of the three real report functions on node 1 */
static int ux_n, ux_bad; static int64_t ux_val[4][2]; static int ux_cnt[4][2];
#endif
static int unit_b_sig, sorted_n, sorted_node[3];
/* monitor state */
static int pass;                 /* 1 wet, 2 dry */
static int victim = -1, done, natt[3], att[3][6], att_ok[3][6], att_sig[3][6], att_uuid[3][6];
static int nkill_ev[3], nwrite_ev[3], nxattr_ev[3], nsys_ev[3], nopen_ev[3], nstat_inc[3], nkmsg[3], ret_[3], pause_ov[3];
static int64_t pause_until[3];
static int cur_sig, cur_kk_ok;   /* per-attempt: successful signals; cgroup.kill written */
static int x_uuid_ok, x_ooms_cnt, x_kill_cnt, x_ooms_bad, x_kill_bad, x_uuid_bad, kmsg_in_att, stat_in_att;
static void close_attempt(void) {
  if (victim < 0) return;
  int i = natt[pass] - 1;
  int ok = cur_sig > 0 || cur_kk_ok;
  if (i >= 0 && i < 6) { att_ok[pass][i] = ok; att_sig[pass][i] = cur_sig; }
  if (pass == 1) {
    /* walk variants: the accounting calls are observed at their call boundary (see h_kill.cpp) */
    VF_CHECK(x_uuid_bad == 0 && x_uuid_ok == 1, "C17: each wet attempt records that attempt's id as the victim's oomd_kill_uuid");
    VF_CHECK(x_ooms_bad == 0 && x_ooms_cnt == 1, "C17: each wet attempt reports exactly one kill initiation for the victim");
    if (!FL(2)) VF_CHECK(x_kill_bad == 0 && x_kill_cnt == 1, "C17: each wet attempt reports a kill completion with exactly the number of SIGKILLs successfully sent");
    VF_CHECK(kmsg_in_att == (ok ? 1 : 0), "C17: exactly one kmsg kill record per attempt that signalled a process, none otherwise");
    VF_CHECK(stat_in_att == (ok ? 1 : 0), "C17: oomd.kills rises by exactly 1 per wet attempt that signalled a process, not otherwise");
  }
  if (ok) done = 1;
  victim = -1;
}
static void open_attempt(int node, int uuid, int dry) {
  close_attempt();
  VF_CHECK(!done, "C01: one invocation stops at the first victim from which a process was signalled");
  VF_CHECK(dry == (pass == 2 || (H_MODE == 0 && FL(1))), "harness: dry flag");
  /* legality of the victim: matched by the patterns, or (recursive) a descendant reached through non-oom-group ancestors */
  int legal = 0;
  if (node >= 1 && node < H_NODES) {
    int top = node; while (kParent[top] > 0) top = kParent[top];
#if H_PAT == 0
    int init_ok = top == 1 && (node == 1 || FL(0));
#elif H_PAT == 1 || H_PAT == 2
    int init_ok = (top == 1 || top == 2) && (node == top || FL(0));
#else
    int init_ok = (node == 3 || node == 4);
#endif
    legal = init_ok;
    if (node != top && H_PAT != 3) legal = legal && !ND(top, 2);          /* never below a memory.oom.group=1 cgroup */
    if (FL(0) && !ND(node, 2)) for (int c = 1; c < H_NODES; c++) if (kParent[c] == node) legal = 0;   /* recursion must descend into children instead */
  }
  VF_CHECK(legal, "C01/C03: the victim is matched by the configured cgroup patterns or, with recursive targeting, is a descendant reached one level at a time and never below an oom.group cgroup");
  VF_CHECK(node < 1 || node >= H_NODES || ND(node, 1), "C03: unpopulated cgroups are skipped");
  victim = node; cur_sig = 0; cur_kk_ok = 0; x_uuid_ok = x_ooms_cnt = x_kill_cnt = x_ooms_bad = x_kill_bad = x_uuid_bad = kmsg_in_att = stat_in_att = 0;
  if (natt[pass] < 6) { att[pass][natt[pass]] = node; att_uuid[pass][natt[pass]] = uuid; }
  natt[pass]++;
  if (dry) { cur_kk_ok = 1; }   /* a dry attempt counts as "selected a victim" */
}
void vf_on_event(int kind, int64_t a, int64_t b, int64_t c, int64_t d) {
  switch (kind) {
    case EV_OP: close_attempt(); pass = (int)a; done = 0; victim = -1; return;
    case EV_NOTE:
      if (a == N_ATTEMPT) open_attempt((int)b, (int)c, (int)d);
      else if (a == N_RET) { close_attempt(); ret_[pass] = (int)b; }
      else if (a == N_PAUSE) { pause_ov[pass] = (int)b; pause_until[pass] = c; }
      else if (a >= N_SORTED && a <= N_SORTED + 3) { if (a == N_SORTED) sorted_n = (int)b; else sorted_node[a - N_SORTED - 1] = (int)b; }
      else if (a == N_UNITVICTIM) { pass = 1; victim = (int)b; cur_sig = 0; }
      else if (a == N_UNITRET) { VF_CHECK(c == cur_sig, "C17: the reported number of killed processes is the number of SIGKILLs successfully sent"); if (cur_sig > 0 && b == 2) unit_b_sig = 1; victim = -1; }
      else if (a == N_XINIT || a == N_XDONE || a == N_XUUID) {
        nxattr_ev[pass]++;
        VF_CHECK(victim >= 1 && b == victim, "C01: xattrs are only written on the chosen victim");
        int i = natt[pass] - 1;
        if (a == N_XUUID) { if (b == victim && i >= 0 && i < 6 && c == att_uuid[pass][i]) x_uuid_ok++; else x_uuid_bad++; }
        else if (a == N_XINIT) { if (b == victim) x_ooms_cnt++; else x_ooms_bad++; }
        else { if (b == victim && c == cur_sig) x_kill_cnt++; else x_kill_bad++; }
      }
      return;
    case EV_KILL:
      nkill_ev[pass]++;
      VF_CHECK(b == 9, "C01: every signal sent is SIGKILL");
      VF_CHECK(a > 0, "C01: signals go to positive pids only (pid 0 / negative would hit a whole process group)");
      VF_CHECK(victim >= 1 && pid_listed(a, victim), "C01: every signalled pid was listed in cgroup.procs of the chosen victim or its descendants");
      if (c == 0) cur_sig++;
      return;
    case EV_OPENPROCS:
      nopen_ev[pass]++;
      VF_CHECK(victim >= 1 && a >= 1 && in_subtree((int)a, victim), "C01: cgroup.procs is only read from the victim's subtree (through its held directory fd)");
      return;
    case EV_WRITE:
      nwrite_ev[pass]++;
      VF_CHECK(victim >= 1 && a == victim && (b == F_FREEZE_ || b == F_KILL_), "C01: cgroup.freeze / cgroup.kill are only written in the chosen victim");
      if (b == F_KILL_ && a == victim) cur_kk_ok = 1;
      return;
    case EV_SETXATTR: {
#if H_MODE == 3
      { int which = (int)(b / 2), tu = (int)(b % 2); if (a != 1 || which < 1 || which > 3) { ux_bad++; return; } for (int w = 1; w <= 3; w++) for (int t = 0; t < 2; t++) if (w == which && t == tu) { ux_cnt[w][t]++; ux_val[w][t] = c; } ux_n++; return; }
#endif
      nxattr_ev[pass]++;
      VF_CHECK(victim >= 1 && a == victim, "C01: xattrs are only written on the chosen victim");
      int which = (int)(b / 2), tu = (int)(b % 2);
      if (victim >= 1 && a == victim && victim < NN) {
        int i = natt[pass] - 1;
        if (which == 3) { if (i >= 0 && i < 6 && c == att_uuid[pass][i]) x_uuid_ok++; else x_uuid_bad++; }
        else if (which == 1) { int64_t pre = vf_cfg[CFG_X + victim - 1][tu]; if (pre < 0) pre = 0; if (c == pre + 1) x_ooms_cnt++; else x_ooms_bad++; }
        else if (which == 2) { int64_t pre = vf_cfg[CFG_X + victim - 1][2 + tu]; if (pre < 0) pre = 0; if (c == pre + cur_sig) x_kill_cnt++; else x_kill_bad++; }
      }
      return;
    }
    case EV_SYSCALL:
      nsys_ev[pass]++;
      if (a == SYS_pidfd_open_) VF_CHECK(victim >= 1 && pid_listed(b, victim), "C01: pidfd_open only on pids of the victim's subtree");
      else VF_CHECK(victim >= 1 && b >= 6000 && pid_listed(b - 6000, victim), "C01: process_mrelease only on pidfds of the victim's pids");
      return;
    case EV_KMSG: nkmsg[pass]++; kmsg_in_att++; return;
    case EV_STAT: if (a == 1 && c == 0) { nstat_inc[pass] += (int)b; stat_in_att += (int)b; } return;
    default: return;
  }
}
/* reference DFS order of leaf candidates (keys distinct among siblings by assumption) */
static int pref(int n) { int x = (int)ND(n, 3); return (x & 3) ? 1 : (x & 12) ? -1 : 0; }
static int better(int a, int b) { return pref(a) > pref(b) || (pref(a) == pref(b) && ND(a, 4) > ND(b, 4)); }
static int ref_seq(int* out) {
  int k = 0, tops[2], nt = 0;
#if H_PAT == 0
  tops[nt++] = 1;
#elif H_PAT == 1 || H_PAT == 2
  tops[nt++] = 1; if (H_NODES > 2) tops[nt++] = 2;
  if (nt == 2 && better(2, 1)) { tops[0] = 2; tops[1] = 1; }
#else
  tops[nt++] = 3; tops[nt++] = 4; if (better(4, 3)) { tops[0] = 4; tops[1] = 3; }
#endif
  for (int i = 0; i < nt; i++) {
    int c = tops[i];
    int haskids = 0; for (int x = 1; x < H_NODES; x++) if (kParent[x] == c) haskids = 1;
    if (FL(0) && !ND(c, 2) && haskids) {
      int k0 = 3, k1 = 4; if (better(4, 3)) { k0 = 4; k1 = 3; }
      if (ND(k0, 1)) out[k++] = k0;
      if (ND(k1, 1)) out[k++] = k1;
    } else if (ND(c, 1)) out[k++] = c;
  }
  return k;
}
int main(void) {
  vf_global_ctors();
  vf_run_harness(harness);
  VF_CHECK(vf_exc == 0, "no exception escapes the kill plugin");
#if H_MODE == 5
  {
    /* unit ranking: kill preference first (prefer > normal > avoid), then the metric, descending; ties in both are free */
    VF_CHECK(sorted_n == 3, "C03: ranking keeps every candidate");
    int seen = 0;
    for (int i = 0; i < 3; i++) { int n = sorted_node[i]; VF_CHECK(n >= 1 && n <= 3, "C03: ranking returns the candidates it was given"); if (n >= 1 && n <= 3) seen |= 1 << n; }
    VF_CHECK(seen == 14, "C03: ranking is a permutation of the candidates");
    for (int i = 0; i + 1 < 3; i++) {
      int x = sorted_node[i], y = sorted_node[i + 1];
      if (x >= 1 && x <= 3 && y >= 1 && y <= 3) {
        int64_t px = ND(x, 3), py = ND(y, 3), mx = ND(x, 4), my = ND(y, 4);
        VF_CHECK(px >= py, "C03: a cgroup marked prefer is ranked before an unmarked one and an unmarked one before one marked avoid, whatever the metric says");
        if (px == py) VF_CHECK(mx >= my, "C03: among equally preferred cgroups the larger metric ranks first");
        if (px > py && mx < my) VF_REACH("preference overrides the metric");
      }
    }
    VF_CHECK(0, "WITNESS: oracle reached its end");
#ifndef __CPROVER__
    return vf_native_finish();
#endif
    return 0;
  }
#endif
#if H_MODE == 4
  if (nkill_ev[1] > 0) VF_REACH("a process was signalled");
  if (unit_b_sig) VF_REACH("second victim signalled on the same plugin object");
  VF_CHECK(0, "WITNESS: oracle reached its end");
#ifndef __CPROVER__
  return vf_native_finish();
#endif
  return 0;
#endif
#if H_MODE == 3
  {
    int64_t nk = vf_cfg[CFG_FLAGS][6];
    VF_CHECK(ux_bad == 0, "C17: accounting xattrs are written on the victim only, under the documented names");
    for (int tu = 0; tu < 2; tu++) {
      int64_t o = vf_cfg[CFG_X + 0][tu], k = vf_cfg[CFG_X + 0][2 + tu]; if (o < 0) o = 0; if (k < 0) k = 0;
      VF_CHECK(ux_cnt[3][tu] == 1 && ux_val[3][tu] == 7, "C17: trusted./user.oomd_kill_uuid is set to the attempt's id");
      VF_CHECK(ux_cnt[1][tu] == 1 && ux_val[1][tu] == o + 1, "C17: trusted./user.oomd_ooms is incremented by exactly 1, each from its own pre-existing value read as an integer");
      VF_CHECK(ux_cnt[2][tu] == 1 && ux_val[2][tu] == k + nk, "C17: trusted./user.oomd_kill grows by exactly the number of SIGKILLs successfully sent, each from its own pre-existing value");
    }
    if (vf_cfg[CFG_X + 0][0] >= 0 && vf_cfg[CFG_X + 0][1] >= 0 && vf_cfg[CFG_X + 0][0] != vf_cfg[CFG_X + 0][1]) VF_REACH("trusted. and user. counters start from different values");
    VF_CHECK(0, "WITNESS: oracle reached its end");
#ifndef __CPROVER__
    return vf_native_finish();
#endif
    return 0;
  }
#endif
  int P = H_MODE == 0 ? (FL(1) ? 2 : 1) : 1;   /* pass index of the (first) run */
  /* C03: attempt order = reference DFS, truncated after the first success */
  int tie = 0;
  if (H_NODES > 2 && pref(1) == pref(2) && ND(1, 4) == ND(2, 4)) tie = 1;
  if (H_NODES > 4 && pref(3) == pref(4) && ND(3, 4) == ND(4, 4)) tie = 1;
  int exp[6]; int ne = ref_seq(exp);
  if (!tie) {
    int stop = 0, want = 0;
    for (int i = 0; i < 4; i++) if (i < ne && !stop) { want++;
      VF_CHECK(i < natt[P] && att[P][i] == exp[i], "C03: victims are tried in rank order: prefer > normal > avoid, then metric; children of the best-ranked cgroup one level at a time; next-best on failure");
      if (i < natt[P] && att_ok[P][i]) stop = 1; }
    VF_CHECK(natt[P] == want, "C03: fallback continues until one kill succeeds or candidates run out, and no further");
    if (want >= 2) VF_REACH("fallback to the next-best candidate after a failed kill");
    if (FL(0) && ne > 0 && exp[0] >= 3) VF_REACH("recursive descent into children");
  } else VF_REACH("tie among siblings (order among tied candidates not judged)");
  /* C17: return value */
  int any_ok = 0; for (int i = 0; i < 6; i++) if (i < natt[P] && att_ok[P][i]) any_ok = 1;
  VF_CHECK(ret_[P] == ((any_ok && !FL(4)) ? RET_STOP : RET_CONTINUE), "C17: STOP exactly when a process was signalled (dry: a victim selected) and always_continue is off, CONTINUE otherwise");
  VF_CHECK(pause_ov[P] == ((any_ok && !FL(4) && FL(5)) ? 1 : 0), "C05: the plugin's post_action_delay is applied to the invoking ruleset exactly when the action ends the chain with STOP");
  if (any_ok) VF_REACH("a kill succeeded");
  if (P == 2 || H_MODE == 1) {
    int D = 2;
    VF_CHECK(nkill_ev[D] == 0 && nwrite_ev[D] == 0 && nxattr_ev[D] == 0 && nsys_ev[D] == 0 && nopen_ev[D] == 0, "C04: a dry run sends no signal, writes no xattr or control file and issues no pidfd/process_mrelease call");
    VF_CHECK(nstat_inc[D] == 0, "C04: a dry run does not increase oomd.kills");
    VF_CHECK(nkmsg[D] == (natt[D] > 0 ? 1 : 0) && natt[D] <= 1, "C04: a dry run logs exactly its first selected victim");
    VF_REACH("dry run judged");
  }
#if H_MODE == 1
  VF_CHECK((natt[1] > 0) == (natt[2] > 0), "C04: dry and wet run agree on whether there is a victim");
  if (natt[1] > 0 && !tie) VF_CHECK(att[1][0] == att[2][0], "C04: the dry run picks the same first victim the wet run attempts first");
  if (natt[2] > 0) VF_CHECK(ret_[2] == (FL(4) ? RET_CONTINUE : RET_STOP) && pause_ov[2] == ((!FL(4) && FL(5)) ? 1 : 0), "C04: a dry run returns STOP and pauses its ruleset exactly as a wet run does after a successful kill");
  if (natt[1] > 0 && att_ok[1][0]) VF_CHECK(ret_[1] == ret_[2] && pause_ov[1] == pause_ov[2], "C04: same control flow as the wet run whose first kill succeeded");
#endif
  VF_CHECK(0, "WITNESS: oracle reached its end");
#ifndef __CPROVER__
  return vf_native_finish();
#endif
  return 0;
}
