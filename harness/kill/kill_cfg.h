#ifndef KILL_CFG_H
#define KILL_CFG_H
/* Kill-plugin harness world: node 0 root "", 1 "a", 2 "b", 3 "a/x", 4 "a/y" (H_NODES of them are created). */
#ifndef H_NODES
#define H_NODES 5
#endif
#ifndef H_PAT
#define H_PAT 1     /* 0: "a"   1: "*"   2: "a,b" (two patterns)   3: "a/*" */
#endif
#ifndef H_NPIDS
#define H_NPIDS 2
#endif
#ifndef H_PIDZERO
#define H_PIDZERO 1
#endif
#ifndef H_MODE
#define H_MODE 0
#endif
#ifndef H_CUR
#define H_CUR {0, 2, 1, 1, 2}   /* ranking metric (memory.current) per node */
#endif
#ifndef H_XA
#define H_XA {0, 0, 0, 0, 0}    /* kill-preference xattr bits per node (world.h) */
#endif
#define NN 5
enum { CFG_FLAGS = 0 /* [0] recursive [1] dry [2] kernelkill [3] reap [4] always_continue [5] plugin delay+1 (0 none) [6] wet/dry pass */,
       CFG_NODE = 1 /* + n : [0] exists [1] populated [2] oom_group [3] xattrs [4] metric [5] npids [6] pids packed (10 bits each) [7] pids_current */,
       CFG_X = 6 /* + n-1 for n=1..4: [0..1] ooms pre (trusted,user) -1 none, [2..3] kill pre */ };
#define PID_OF(n, k) (100 + (n) * 10 + (k))
/* event NOTE codes */
enum { N_ATTEMPT = 800, N_RET = 801, N_PAUSE = 802, N_XINIT = 803, N_XDONE = 804, N_XUUID = 805, N_UNITVICTIM = 806, N_UNITRET = 807, N_SORTED = 810 /* +1..+3: i-th ranked node */ };
#endif
