#include "scripted.h"
extern "C" int vf_uuid_serial_of(const char* s);
extern "C" void vf_log_control(int enable) { vfh::g_log_enabled = enable; }
extern "C" void vf_kmsg(const char* buf, const char* prefix) { vf_event(EV_KMSG, 0, 0, 0, 0); }
namespace vfh {
int g_serial = 0;
int g_tick = -1;
int g_log_enabled = 1;
int uuidSerial(const std::string& u) { return u.empty() ? 0 : vf_uuid_serial_of(u.c_str()); }
// cgroup ids: relative path "c<k>" -> k, "" (root) -> 100, anything else -> 99
int cgroupArgId(const std::string& rel) { if (rel.empty()) return 100; return (rel.size() == 2 && rel[0] == 'c' && rel[1] >= '0' && rel[1] <= '9') ? rel[1] - '0' : 99; }
int cgroupId(const std::optional<Oomd::CgroupPath>& p) { if (!p) return -1; return cgroupArgId(p->relativePath()); }
}
