#pragma once
// Scripted plugins: real BasePlugin subclasses whose verdicts are nondeterministic (symbolic) and whose calls are events.
#include "prelude.h"
#include "oomd/OomdContext.h"
#include "oomd/PluginRegistry.h"
#include "oomd/engine/BasePlugin.h"
#include "oomd/engine/Ruleset.h"
namespace vfh {
enum { K_RET = 10000, K_ACT_ADV = 30000 };
#ifndef VF_RET_MAX
#define VF_RET_MAX 2   /* 2: CONTINUE/STOP/ASYNC_PAUSED; 1: no ASYNC_PAUSED */
#endif
#ifndef VF_ACT_ADV_MAX_S
#define VF_ACT_ADV_MAX_S 2
#endif
inline int idxOf(const std::string& s, char prefix) { return (s.size() == 2 && s[0] == prefix && s[1] >= '0' && s[1] <= '9') ? s[1] - '0' : 15; }
inline std::string nameOf(char prefix, int i) { std::string s; s.push_back(prefix); s.push_back((char)('0' + i)); return s; }
extern int g_serial;        // instance serial counter
extern int g_tick;          // current tick as announced by the harness (vfh::g_tick = t)
inline int id4(int v) { return v < 0 ? 15 : v == 100 ? 14 : v >= 13 ? 13 : v; }
extern int g_log_enabled;   // driven by the shadow LogStream::Control
int uuidSerial(const std::string& u);
int cgroupId(const std::optional<Oomd::CgroupPath>& p);
int cgroupArgId(const std::string& rel);

struct Scripted : Oomd::Engine::BasePlugin {
  int id{-1};
  int serial{-1};
  int delay_override{-1};   // >= 0: behaves like a kill plugin's tail on STOP (pause_actions on the invoking ruleset)
  int cg{-1};               // id of the `cgroup` argument, if given
  Scripted() {}
  explicit Scripted(int i, int ov = -1) : id(i), serial(g_serial++), delay_override(ov) {}
  int init(const Oomd::Engine::PluginArgs& args, const Oomd::PluginConstructionContext&) override {
    auto it = args.find("id");
    if (it == args.end()) return 1;
    id = std::stoi(it->second);
    auto ov = args.find("pad");
    if (ov != args.end()) delay_override = std::stoi(ov->second);
    auto c = args.find("cgroup");
    if (c != args.end()) cg = cgroupArgId(c->second);
    serial = g_serial++;
    vf_event(EV_INIT, id, serial, (int64_t)args.size(), cg);
    return 0;
  }
  int prerun_tick{-1};
  void prerun(Oomd::OomdContext&) override { prerun_tick = g_tick; vf_event(EV_PRERUN, id, serial, 0, 0); }
  Oomd::Engine::PluginRet run(Oomd::OomdContext& ctx) override {
    int r = (int)vf_nd(K_RET + id, 0, VF_RET_MAX);
    bool isAction = (id % 1000) >= 100;
    const Oomd::ActionContext& ac = ctx.getActionContext();
    auto inv = ctx.getInvokingRuleset();
    if (isAction) {
      vf_clock_advance(vf_nd(K_ACT_ADV + id, 0, (int64_t)VF_ACT_ADV_MAX_S * 1000000000LL));
      if (r == RET_STOP && delay_override >= 0 && inv) (*inv)->pause_actions(std::chrono::seconds(delay_override));
    }
    vf_event(EV_RUN, id, r, VF_CTX_PACK(idxOf(ac.ruleset_name, 'r'), idxOf(ac.detectorgroup, 'g'), g_log_enabled, inv.has_value() ? 1 : 0) | VF_CTX_PACK2(id4(cgroupId(ctx.getRulesetCgroup())), prerun_tick == g_tick, id4(cg), serial), vf_clock_ns());
    if (isAction)
      vf_event(EV_CTX, id, uuidSerial(ac.action_group_run_uuid), ac.prekill_hook_timeout_ts ? (int64_t)ac.prekill_hook_timeout_ts->time_since_epoch().count() : -1, cgroupId(ac.target_cgroup));
    return (Oomd::Engine::PluginRet)r;
  }
};
}
