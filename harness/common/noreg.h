#pragma once
// Plugins are instantiated directly by the harness; the static registration (whose long plugin names exceed the small
// string cap of tick-level harnesses) is compiled out. Registration itself is exercised by the config harnesses.
#include "oomd/PluginRegistry.h"
#undef REGISTER_PLUGIN
#define REGISTER_PLUGIN(plugin_name, create_func) static_assert(true, "")
#undef REGISTER_PREKILL_HOOK
#define REGISTER_PREKILL_HOOK(hook_name, create_func) static_assert(true, "")
