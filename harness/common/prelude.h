#pragma once
// Standard headers first (so that the access-opening defines below never reach the standard library), then the
// verification runtime, then `private`/`protected` are opened so harnesses can build and inspect real oomd state.
#include <algorithm>
#include <array>
#include <atomic>
#include <chrono>
#include <condition_variable>
#include <cstdint>
#include <cstring>
#include <deque>
#include <functional>
#include <iomanip>
#include <iostream>
#include <map>
#include <memory>
#include <mutex>
#include <optional>
#include <set>
#include <sstream>
#include <stdexcept>
#include <string>
#include <thread>
#include <tuple>
#include <unordered_map>
#include <unordered_set>
#include <utility>
#include <variant>
#include <vector>
#include <cmath>
#include <cstdio>
#include <cstdlib>
#include <fstream>
#include <future>
#include <limits>
#include <numeric>
#include <random>
#include <system_error>
#include <vf_cxx.h>
#include "vf_events.h"
#define private public
#define protected public
