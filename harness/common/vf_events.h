/* Event kinds shared by the C++ harness side and the C oracle side. */
#ifndef VF_EVENTS_H
#define VF_EVENTS_H
enum {
  EV_TICK = 1,      /* a = tick number, b = clock (ns) at tick start */
  EV_PRERUN = 2,    /* a = plugin id, b = instance serial */
  EV_RUN = 3,       /* a = plugin id, b = return value, c = packed context (see VF_CTX_*), d = clock (ns) when run() returned */
  EV_CTX = 4,       /* a = plugin id, b = uuid serial, c = prekill timeout ts (ns) or -1, d = target cgroup id or -1 */
  EV_INIT = 5,      /* a = plugin id, b = instance serial, c = init-arg digest, d = cgroup arg id or -1 */
  EV_KMSG = 6,
  EV_LOGCTL = 7,    /* a = enable */
  EV_STAT = 8,      /* a = stat key id, b = delta (increment) or value (set), c = 0 inc / 1 set */
  EV_KILL = 10,     /* a = pid, b = signal, c = result */
  EV_WRITE = 11,    /* a = node id, b = file id, c = value */
  EV_SETXATTR = 12, /* a = node id, b = attr id, c = value (number) or serial */
  EV_SYSCALL = 13,  /* a = nr, b = arg0 */
  EV_OPENPROCS = 14,/* a = node id */
  EV_HOOK_FIRE = 20,   /* a = hook id, b = invocation serial, c = node id, d = clock */
  EV_HOOK_POLL = 21,   /* a = invocation serial, b = result */
  EV_HOOK_DESTROY = 22,/* a = invocation serial */
  EV_OP = 30,       /* harness-level operation marker: a = op, b..d = operands */
  EV_NOTE = 31,     /* harness-specific observation */
  EV_END = 99
};
/* packed run context: ruleset index (0..14, 15 = unknown/empty) | group index << 4 | log_enabled << 8 | has_invoking_ruleset << 9
 * | ruleset-cgroup id << 10 (15 = none) | prerun-seen-this-tick << 14 | plugin's own cgroup-arg id << 16 (15 = none) | instance serial << 24 */
#define VF_CTX_PACK(rs, grp, logen, inv) (((rs) & 15) | (((grp) & 15) << 4) | (((logen) & 1) << 8) | (((inv) & 1) << 9))
#define VF_CTX_PACK2(rcg, pre, cg, serial) ((((int64_t)(rcg) & 15) << 10) | (((int64_t)(pre) & 1) << 14) | (((int64_t)(cg) & 15) << 16) | ((int64_t)(serial) << 24))
#define VF_CTX_RCG(c) ((int)(((c) >> 10) & 15))
#define VF_CTX_PRE(c) ((int)(((c) >> 14) & 1))
#define VF_CTX_CG(c) ((int)(((c) >> 16) & 15))
#define VF_CTX_SERIAL(c) ((int)((c) >> 24))
#define VF_CTX_RS(c) ((int)((c) & 15))
#define VF_CTX_GRP(c) ((int)(((c) >> 4) & 15))
#define VF_CTX_LOGEN(c) ((int)(((c) >> 8) & 1))
#define VF_CTX_INV(c) ((int)(((c) >> 9) & 1))
enum { RET_CONTINUE = 0, RET_STOP = 1, RET_ASYNC = 2 };
#endif
