#ifndef DROPIN_CFG_H
#define DROPIN_CFG_H
/* C13 harness: 2 base rulesets r0, r1 (1 detector + 1 action each); K operations add/remove over tags {0,1}. */
#ifndef H_K
#define H_K 3
#endif
#ifndef H_MAXTARGET
#define H_MAXTARGET 4
#endif
#ifndef H_HOOKS
#define H_HOOKS 1
#endif
enum { CFG_BASEFLAGS = 0 /* [r]: bit0 disable_on_drop_in, bit1 dgs enabled, bit2 acts enabled */, CFG_OP = 1 /* [j]: packed op */, CFG_RET = 2 /* unused */ };
/* op packing: kind (0 add, 1 remove) | tag << 1 (0..3) | target << 3 (0 r0, 1 r1, 2 unknown, 3 r0+r1, 4 r0+unknown) | content << 6 (1 dgs, 2 acts, 3 both) | hook << 8 */
#define OP_KIND(o) ((int)((o) & 1))
#define OP_TAG(o) ((int)(((o) >> 1) & 3))
#define OP_TARGET(o) ((int)(((o) >> 3) & 7))
#define OP_CONTENT(o) ((int)(((o) >> 6) & 3))
#define OP_HOOK(o) ((int)(((o) >> 8) & 1))
#define OP_PACK(kind, tag, target, content, hook) ((kind) | ((tag) << 1) | ((target) << 3) | ((content) << 6) | ((hook) << 8))
/* 5-bit event codes: base r: det 1+2r, act 2+2r; drop-in of op j, sub-ruleset s (0/1): det 5+4j+2s, act 6+4j+2s */
#define CODE_BASE_DET(r) (1 + 2 * (r))
#define CODE_BASE_ACT(r) (2 + 2 * (r))
#define CODE_DI_DET(j, s) (5 + 4 * (j) + 2 * (s))
#define CODE_DI_ACT(j, s) (6 + 4 * (j) + 2 * (s))
/* plugin ids carry their code: id = code for detectors, 100 + code for actions (so Scripted treats them as actions) */
#define HOOK_BASE_ID 1
#define HOOK_DI_ID(j) (10 + (j))
#endif
