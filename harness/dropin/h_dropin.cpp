// Harness for C13: the real Engine::{addDropInConfig,addDropInRuleset,removeDropInConfig,prerun,runOnce}, Ruleset::
// {mergeWithDropIn,markDropIn(Un)Targeted}, Config2::{compile,compileDropIn} and DropInServiceAdaptor::{updateDropIns,
// scheduleDropInAdd,scheduleDropInRemove} under an arbitrary sequence of H_K add / re-add / remove / failing-add
// operations; one engine tick after every operation.
// The candidate drop-in files are built with concrete shapes and the operation picks one by a symbolic selector (a
// symbolic *shape* would make every container loop in the compiler unroll to its cap).
#include "prelude.h"
#include "oomd/config/ConfigCompiler.h"
#include "oomd/config/ConfigTypes.h"
#include "oomd/dropin/DropInServiceAdaptor.h"
#include "oomd/engine/Engine.h"
#include "oomd/engine/PrekillHook.h"
#include "scripted.h"
#include "dropin_cfg.h"
using namespace Oomd;
using Oomd::Engine::BasePlugin;
namespace IR = Oomd::Config2::IR;
enum { K_FLAGS = 10, K_OP = 20 };
struct Hook : Oomd::Engine::PrekillHook {
  // identity travels in the registered name "h<id>"; init() is the real PrekillHook::init (cgroup pattern parsing)
  int id{-1};
  void setName(const std::string& name) override { Oomd::Engine::PrekillHook::setName(name); id = 0; for (size_t i = 1; i < name.size(); i++) id = id * 10 + (name[i] - '0'); }
  std::unique_ptr<Oomd::Engine::PrekillHookInvocation> fire(const CgroupContext&, const ActionContext&) override { return nullptr; }
};
struct Adaptor : DropInServiceAdaptor {
  using DropInServiceAdaptor::DropInServiceAdaptor;
  void tick() override {}
  void handleDropInAddResult(const std::string&, bool ok) override { vf_event(EV_NOTE, 1, ok, 0, 0); }
  void handleDropInRemoveResult(const std::string&, bool ok) override { vf_event(EV_NOTE, 2, ok, 0, 0); }
  bool add(const std::string& tag, const IR::Root& d) { return scheduleDropInAdd(tag, d); }
  void remove(const std::string& tag) { scheduleDropInRemove(tag); }
};
static IR::Detector det(int code) { IR::Detector d; d.name = "s"; d.args["id"] = std::to_string(code); return d; }
static IR::Action act(int code) { IR::Action a; a.name = "s"; a.args["id"] = std::to_string(100 + code); return a; }
static std::string hname(int id) { return std::string("h") + std::to_string(id); }
static IR::PrekillHook hk(int id) { IR::PrekillHook h; h.name = hname(id); h.args["cgroup"] = "x"; return h; }
static IR::Ruleset dropinRs(const char* target, int j, int sub, int content) {
  IR::Ruleset rs; rs.name = target;
  if (content & 1) { IR::DetectorGroup g; g.name = "g0"; g.detectors.push_back(det(CODE_DI_DET(j, sub))); rs.dgs.push_back(g); }
  if (content & 2) rs.acts.push_back(act(CODE_DI_ACT(j, sub)));
  return rs;
}
static IR::Root candidate(int j, int target, int content, int hook) {
  IR::Root d;
  const char* t0 = target == 1 ? "r1" : (target == 2 || target == 5) ? "rX" : "r0";
  d.rulesets.push_back(dropinRs(t0, j, 0, content));
  if (target == 3) d.rulesets.push_back(dropinRs("r1", j, 1, content));
  if (target == 4 || target == 6) d.rulesets.push_back(dropinRs("rX", j, 1, content));
  if (hook) d.prekill_hooks.push_back(hk(HOOK_DI_ID(j)));
  return d;
}
extern "C" void harness(void) {
  getPluginRegistry().add("s", []() -> BasePlugin* { return new vfh::Scripted(); });
  getPrekillHookRegistry().add(hname(HOOK_BASE_ID), []() -> Oomd::Engine::PrekillHook* { return new Hook(); });
  for (int j = 0; j < H_K; j++) getPrekillHookRegistry().add(hname(HOOK_DI_ID(j)), []() -> Oomd::Engine::PrekillHook* { return new Hook(); });
  // long-lived objects are deliberately never destroyed: teardown of the whole engine is not a subject of C13 and costs
  // more symbolic execution than the operations themselves
  static IR::Root root;   // static storage: typed object, never destroyed
#if defined(H_STOP) && (H_STOP == 1 || H_STOP >= 3)
  for (int r = 0; r < 0; r++) {
#else
  for (int r = 0; r < 2; r++) {
#endif
#ifdef H_FLAGS
    static const int kFlags[2] = H_FLAGS;   // drop-in permissions of the two base rulesets are concrete per variant (they decide the *shape* of the engine)
    const int fl = kFlags[r];
#else
    int fl = (int)vf_nd(K_FLAGS + r, 0, 7);
#endif
    vf_cfg_set(CFG_BASEFLAGS, r, fl);
    IR::Ruleset rs; rs.name = vfh::nameOf('r', r);
    IR::DetectorGroup g; g.name = "g0"; g.detectors.push_back(det(CODE_BASE_DET(r))); rs.dgs.push_back(g);
    rs.acts.push_back(act(CODE_BASE_ACT(r)));
    rs.dropin.disable_on_drop_in = fl & 1; rs.dropin.detectorgroups_enabled = (fl >> 1) & 1; rs.dropin.actiongroup_enabled = (fl >> 2) & 1;
    rs.post_action_delay = "0";
    root.rulesets.push_back(rs);
  }
  root.prekill_hooks.push_back(hk(HOOK_BASE_ID));
  PluginConstructionContext pcc("/c");
#if defined(H_STOP) && H_STOP == 3
  { auto& hk0 = root.prekill_hooks[0]; std::unique_ptr<Oomd::Engine::PrekillHook> h(getPrekillHookRegistry().create(hk0.name)); h->setName(hk0.name); int rc = h->initPlugin(hk0.args, pcc); vf_event(EV_NOTE, 78, rc, 0, 0); return; }
#endif
#if defined(H_STOP) && H_STOP == 4
  { IR::PrekillHook hk0 = hk(HOOK_BASE_ID); std::unique_ptr<Oomd::Engine::PrekillHook> h(getPrekillHookRegistry().create(hk0.name)); h->setName(hk0.name); int rc = h->initPlugin(hk0.args, pcc); vf_event(EV_NOTE, 78, rc, 0, 0); return; }
#endif
  auto engine_up = Config2::compile(root, pcc);
  if (!engine_up) { vf_fail("harness: base configuration must compile"); return; }
  Oomd::Engine::Engine* engine = engine_up.release();
#if defined(H_STOP)
  vf_event(EV_NOTE, 77, 0, 0, 0); return;
#endif
  Adaptor& ad = *new Adaptor("/c", root, *engine);
  OomdContext& ctx = *new OomdContext;
  vf_event(EV_OP, 100, 0, 0, 0);
  for (int j = 0; j < H_K; j++) {
#ifdef H_OPS
    // the operation sequence is concrete per variant (a symbolic choice among drop-in files multiplies the compiler's
    // paths); base permissions, plugin verdicts and everything downstream stay symbolic
    static const int kOps[] = H_OPS;
    const int op = kOps[j];
#else
    int op = (int)vf_nd(K_OP + j, 0, 511);
#endif
    int kind = OP_KIND(op), tag = OP_TAG(op), target = OP_TARGET(op), content = OP_CONTENT(op), hook = OP_HOOK(op);
    vf_assume(target <= H_MAXTARGET && (kind == 1 || content != 0) && hook <= H_HOOKS);
    if (kind == 1) vf_assume(target == 0 && content == 0 && hook == 0);
    vf_cfg_set(CFG_OP, j, op);
    std::string tg = vfh::nameOf('t', tag);
    int ok = 1;
    if (kind == 1) ad.remove(tg);
    else {
#ifdef H_OPS
      if (target >= 5) {
        // targets 5 / 6: the unit is compiled against a stale root that still has a ruleset rX the running engine does not
        // have, and handed to the engine directly: the refusal happens inside Engine::addDropInConfig (after some of the
        // unit may already have been applied), not in the compiler
        static IR::Root stale;
        if (stale.rulesets.empty()) { stale = root; IR::Ruleset rx = root.rulesets[0]; rx.name = "rX"; stale.rulesets.push_back(rx); }
        auto unit = Config2::compileDropIn(stale, candidate(j, target, content, hook), pcc);
        ok = (unit && engine->addDropInConfig(tg, std::move(*unit))) ? 1 : 0;
      } else
      ok = ad.add(tg, candidate(j, target, content, hook)) ? 1 : 0;
#else
      ok = -1;
      for (int t = 0; t <= H_MAXTARGET; t++) for (int c = 1; c <= 3; c++) for (int h = 0; h <= H_HOOKS; h++)
        if (t == target && c == content && h == hook) ok = ad.add(tg, candidate(j, t, c, h)) ? 1 : 0;
#endif
    }
    vf_event(EV_OP, j, ok, 0, 0);
    ad.updateDropIns();
    // observable state after the operation: hook priority order (as firePrekillHook walks it) and the dropin.added stat
    int64_t hooks = 0;
    for (auto it = engine->prekill_hooks_in_reverse_order_.rbegin(); it != engine->prekill_hooks_in_reverse_order_.rend(); ++it)
      hooks = hooks * 32 + static_cast<Hook*>(it->hook.get())->id;
    vf_event(EV_NOTE, 3, hooks, 0, 0);
    vfh::g_tick = j;
    vf_event(EV_TICK, j, 0, 0, 0);
    engine->prerun(ctx);
    vf_event(EV_OP, 200 + j, 0, 0, 0);
    engine->runOnce(ctx);
  }
  vf_event(EV_END, 0, 0, 0, 0);
}
