/* Oracle for C13: after every operation the engine's per-tick call order, base enablement, oomd.dropin.added and the
 * prekill-hook priority order must equal those of a reference model (per base: active drop-ins newest first, then the
 * base; whole-file refusal; re-add = remove + add at the front; remove restores the state without that tag).
 * The per-tick call sequence is kept as a stream of 6-bit symbols (5-bit plugin code, 1 bit "returned STOP"); the
 * reference parses the stream backwards (last event first), which needs no symbolic indexing. */
#include "vf_rt.h"
#include "vf_events.h"
#include "dropin_cfg.h"
void harness(void);
int vf_native_finish(void);
typedef unsigned __int128 u128;
static int cur_j = -1, phase = 0;   /* phase 1: prerun of step j, 2: run of step j */
static u128 pre_stream[H_K], run_stream[H_K];
static int pre_n[H_K], run_n[H_K];
static int64_t hooks_code[H_K], stat_added, stat_at[H_K];
static int add_ok[H_K], n_other, results[H_K];
void vf_on_event(int kind, int64_t a, int64_t b, int64_t c, int64_t d) {
  switch (kind) {
    case EV_OP:
      if (a == 100) return;
      if (a >= 200) { phase = 2; return; }
      cur_j = (int)a; phase = 0; if (cur_j >= 0 && cur_j < H_K) add_ok[cur_j] = (int)b; return;
    case EV_TICK: phase = 1; if (cur_j >= 0 && cur_j < H_K) stat_at[cur_j] = stat_added; return;
    case EV_NOTE: if (a == 3 && cur_j >= 0 && cur_j < H_K) hooks_code[cur_j] = b; if ((a == 1 || a == 2) && cur_j >= 0 && cur_j < H_K) results[cur_j] = (int)(a * 2 + b); return;
    case EV_STAT: if (a == 2) stat_added = d; return;
    case EV_PRERUN:
      if (phase != 1 || cur_j < 0 || cur_j >= H_K) { if (phase != 0) n_other++; return; }   /* phase 0: preruns cannot happen */
      { int code = a >= 100 ? (int)a - 100 : (int)a; pre_stream[cur_j] = (pre_stream[cur_j] << 6) | (u128)(code << 1); pre_n[cur_j]++; }
      return;
    case EV_RUN:
      if (phase != 2 || cur_j < 0 || cur_j >= H_K) { n_other++; return; }
      { int code = a >= 100 ? (int)a - 100 : (int)a; run_stream[cur_j] = (run_stream[cur_j] << 6) | (u128)((code << 1) | (b == RET_STOP)); run_n[cur_j]++; }
      return;
    case EV_CTX: case EV_INIT: case EV_LOGCTL: case EV_END: return;
    default: n_other++;
  }
}
#define NENT (2 * H_K)
int main(void) {
  vf_global_ctors();
  vf_run_harness(harness);
  VF_CHECK(vf_exc == 0, "no exception escapes drop-in handling or the engine");
  VF_CHECK(n_other == 0, "C13: no plugin activity outside prerun/run phases");
  /* reference state: entry e = 2*j+sub is the drop-in ruleset created by op j (sub-ruleset sub) */
  int act[NENT], tgt[NENT], tag[NENT], cont[NENT], hook_active[H_K], hook_tag[H_K];
  for (int e = 0; e < NENT; e++) { act[e] = 0; tgt[e] = 0; tag[e] = 0; cont[e] = 0; }
  for (int j = 0; j < H_K; j++) { hook_active[j] = 0; hook_tag[j] = 0; }
  for (int j = 0; j < H_K; j++) {
    int op = (int)vf_cfg[CFG_OP][j];
    int kind = OP_KIND(op), tg = OP_TAG(op), target = OP_TARGET(op), content = OP_CONTENT(op), hook = OP_HOOK(op);
    if (kind == 1) {
      int any = 0;
      for (int e = 0; e < NENT; e++) if (act[e] && tag[e] == tg) { act[e] = 0; any = 1; }
      for (int h = 0; h < H_K; h++) if (hook_active[h] && hook_tag[h] == tg) hook_active[h] = 0;
      if (any) VF_REACH("remove of an active tag");
    } else {
      int b0 = target == 1 ? 1 : 0;
      int ok = target != 2 && target != 4 && target != 5 && target != 6;   /* 5, 6: refused by the engine itself (unit compiled against a stale root) */
      int f0 = (int)vf_cfg[CFG_BASEFLAGS][b0], f1 = (int)vf_cfg[CFG_BASEFLAGS][1];
      if ((content & 1) && !((f0 >> 1) & 1)) ok = 0;
      if ((content & 2) && !((f0 >> 2) & 1)) ok = 0;
      if (target == 3) { if ((content & 1) && !((f1 >> 1) & 1)) ok = 0; if ((content & 2) && !((f1 >> 2) & 1)) ok = 0; }
      VF_CHECK(add_ok[j] == ok, "C13: a drop-in is accepted iff every ruleset in it targets a known base and overrides only parts the base opened up");
      if (ok) {
        int readd = 0;
        for (int e = 0; e < NENT; e++) if (act[e] && tag[e] == tg) { act[e] = 0; readd = 1; }
        for (int h = 0; h < H_K; h++) if (hook_active[h] && hook_tag[h] == tg) hook_active[h] = 0;
        act[2 * j] = 1; tgt[2 * j] = b0; tag[2 * j] = tg; cont[2 * j] = content;
        if (target == 3) { act[2 * j + 1] = 1; tgt[2 * j + 1] = 1; tag[2 * j + 1] = tg; cont[2 * j + 1] = content; VF_REACH("two-ruleset drop-in file accepted"); }
        if (hook) { hook_active[j] = 1; hook_tag[j] = tg; }
        if (readd) VF_REACH("re-add of an active tag");
        VF_CHECK(results[j] == 3, "C13: an accepted drop-in is reported as added by the engine");
      } else { VF_REACH("drop-in refused as a whole"); VF_CHECK(results[j] == 0, "C13: a refused drop-in never reaches the engine"); }
    }
    /* stat and hooks */
    int nact = 0; for (int e = 0; e < NENT; e++) nact += act[e];
    VF_CHECK(stat_at[j] == nact, "C13: oomd.dropin.added equals the number of active drop-in rulesets");
    int64_t hc = 0; for (int h = H_K - 1; h >= 0; h--) if (hook_active[h]) hc = hc * 32 + HOOK_DI_ID(h);
    hc = hc * 32 + HOOK_BASE_ID;
    VF_CHECK(hooks_code[j] == hc, "C13: prekill hooks are tried newest drop-in first, base hooks last");
    /* parse both streams backwards: bases in reverse order; within a base: base itself (if enabled) was last, then drop-ins oldest .. newest */
    u128 rs = run_stream[j], ps = pre_stream[j];
    for (int b = 1; b >= 0; b--) {
      int nt = 0; for (int e = 0; e < NENT; e++) if (act[e] && tgt[e] == b) nt++;
      int enabled = !((vf_cfg[CFG_BASEFLAGS][b] & 1) && nt > 0);
      if (!enabled) VF_REACH("base ruleset disabled by disable-on-drop-in");
      for (int e = -1; e < NENT; e++) {   /* e == -1: the base; then entries oldest first (which is reverse of newest-first) */
        int on, dcode, acode;
        if (e < 0) { on = enabled; dcode = CODE_BASE_DET(b); acode = CODE_BASE_ACT(b); }
        else { on = act[e] && tgt[e] == b; dcode = (cont[e] & 1) ? CODE_DI_DET(e / 2, e % 2) : CODE_BASE_DET(b); acode = (cont[e] & 2) ? CODE_DI_ACT(e / 2, e % 2) : CODE_BASE_ACT(b); }
        if (!on) continue;
        /* prerun: detector then action, always */
        VF_CHECK((int)(ps & 63) == (acode << 1), "C13: prerun order (drop-ins newest first, then base; replaced parts only)"); ps >>= 6;
        VF_CHECK((int)(ps & 63) == (dcode << 1), "C13: prerun order (drop-ins newest first, then base; replaced parts only)"); ps >>= 6;
        /* run: detector, then the action iff the detector did not STOP */
        if ((int)(rs & 63) >> 1 == acode && (int)((rs >> 6) & 63) == (dcode << 1)) { rs >>= 12; }
        else { VF_CHECK((int)(rs & 63) == ((dcode << 1) | 1), "C13: evaluation order per base is active drop-ins newest first, then the base iff enabled, each a copy of the base with only the supplied parts replaced"); rs >>= 6; }
      }
    }
    VF_CHECK(rs == 0, "C13: nothing else runs in the tick");
    VF_CHECK(ps == 0, "C13: nothing else is prerun in the tick");
  }
  VF_CHECK(0, "WITNESS: oracle reached its end");
#ifndef __CPROVER__
  return vf_native_finish();
#endif
  return 0;
}
