#ifndef DETECT_CFG_H
#define DETECT_CFG_H
#ifndef H_T
#define H_T 3
#endif
/* H_DET: 1 pressure_above, 2 pressure_rising_beyond, 3 memory_above, 4 memory_reclaim, 5 swap_free, 6 exists, 7 nr_dying_descendants */
#ifndef H_DET
#define H_DET 1
#endif
#define NCG 2
/* config rows */
enum { CFG_PARAM = 0 /* [0] threshold, [1] duration, [2] resource(0 mem,1 io) / anon / negate / lte, [3] pattern (0:"a",1:"*",2:"a"+"b"), [4] aux */,
       CFG_SAMPLE = 1 /* + t : [k*4+0] exists, [k*4+1] v1, [k*4+2] v2, [k*4+3] v3  for cgroup k ; [6],[7] spare */ };
#define S_EX(t, k) vf_cfg[CFG_SAMPLE + (t)][(k) * 4]
#define S_V1(t, k) vf_cfg[CFG_SAMPLE + (t)][(k) * 4 + 1]
#define S_V2(t, k) vf_cfg[CFG_SAMPLE + (t)][(k) * 4 + 2]
#define S_V3(t, k) vf_cfg[CFG_SAMPLE + (t)][(k) * 4 + 3]
#endif
