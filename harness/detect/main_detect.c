/* Oracle for C08: the verdict of the detector at every tick must equal its documented predicate evaluated over the whole
 * recorded sample history (formulated with "streaks", independently of the plugin's sentinel/timestamp bookkeeping). */
#include "vf_rt.h"
#include "vf_events.h"
#include "detect_cfg.h"
void harness(void);
int vf_native_finish(void);
#define NS 1000000000LL
static int64_t clk[H_T]; static int ret[H_T], nret, nother;
void vf_on_event(int kind, int64_t a, int64_t b, int64_t c, int64_t d) {
  if (kind == EV_TICK) { if (a >= 0 && a < H_T) clk[a] = b; return; }
  if (kind == EV_NOTE && a < 900) { if (a >= 0 && a < H_T) { ret[a] = (int)b; nret++; } return; }
  if (kind == EV_END || kind == EV_STAT || kind == EV_NOTE) return;
  nother++;
}
static int matched(int pat, int k) { return pat == 0 ? k == 0 : 1; }
int main(void) {
  vf_global_ctors();
  vf_run_harness(harness);
  VF_CHECK(vf_exc == 0, "no exception escapes the detector");
  VF_CHECK(nret == H_T, "harness: one verdict per tick");
  int thr = (int)vf_cfg[CFG_PARAM][0], dur = (int)vf_cfg[CFG_PARAM][1], res = (int)vf_cfg[CFG_PARAM][2], pat = (int)vf_cfg[CFG_PARAM][3];
  int streak_start = -1;   /* first tick of the current run of exceeding samples, -1 if the last sample did not exceed */
  int ambiguous = 0; float last_p10 = 100.0f; int64_t last_pgscan = 0; int64_t last_reclaim = -1;
  for (int t = 0; t < H_T; t++) {
    int want = RET_STOP, judged = 1;
#if H_DET == 1 || H_DET == 2
    /* watched cgroup: the one under most pressure by the weight 3*avg10 + 2*avg60 + avg300 (zero pressure if none) */
    float w10 = 0, w60 = 0, w300 = 0, best = 0; int tie = 0;
    for (int k = 0; k < NCG; k++) if (S_EX(t, k) && matched(pat, k)) {
      float p10 = (float)S_V1(t, k) / 4, p60 = (float)S_V2(t, k) / 4, p300 = (float)S_V3(t, k) / 4;
      float w = p10 * 3 + p60 * 2 + p300;
      if (w > best) { best = w; w10 = p10; w60 = p60; w300 = p300; tie = 0; }
      else if (w == best && w > 0 && (p10 != w10 || p60 != w60)) tie = 1;   /* equal weight, different readings: which one is "most pressured" is not defined */
    }
    if (tie) judged = 0;
#if H_DET == 1
    int exceeds = w10 > (float)thr;
#else
    int exceeds = w60 > (float)thr;
#endif
    if (exceeds) { if (streak_start < 0) streak_start = t; } else streak_start = -1;
    int held = exceeds && (clk[t] - clk[streak_start < 0 ? t : streak_start]) / NS >= dur;
#if H_DET == 1
    want = held ? RET_CONTINUE : RET_STOP;
#else
    want = (held && w10 > (float)thr && !(w10 < last_p10 * 0.85f)) ? RET_CONTINUE : RET_STOP;
    last_p10 = w10;
#endif
    if (!judged) ambiguous = 1;   /* history is ambiguous from here on */
    if (ambiguous) judged = 0;
#elif H_DET == 3
    int64_t usage = 0;
    for (int k = 0; k < NCG; k++) if (S_EX(t, k) && matched(pat, k)) { int64_t u = S_V1(t, k) << 18; if (u > usage) usage = u; }
    int exceeds = usage > ((int64_t)thr << 20);
    if (exceeds) { if (streak_start < 0) streak_start = t; } else streak_start = -1;
    want = (exceeds && (clk[t] - clk[streak_start < 0 ? t : streak_start]) / NS >= dur) ? RET_CONTINUE : RET_STOP;
#elif H_DET == 4
    int64_t pg = 0;
    for (int k = 0; k < NCG; k++) if (S_EX(t, k) && matched(pat, k) && S_V2(t, k) != 0) pg += S_V1(t, k);
    if (t == 0) judged = 0;                      /* no earlier sample: "grew" is not defined for the first one */
    if (pg > last_pgscan) last_reclaim = t;
    if (t > 0 && last_reclaim == 0) judged = 0;  /* depends on how the undefined first sample was read */
    want = (last_reclaim >= 0 && (clk[t] - clk[last_reclaim]) / NS <= dur) ? RET_CONTINUE : RET_STOP;
    last_pgscan = pg;
#elif H_DET == 5
    uint64_t total = (uint64_t)vf_cfg[CFG_SAMPLE + t][0], used = (uint64_t)vf_cfg[CFG_SAMPLE + t][1];   /* total <= 2^H_SWAPBITS: no overflow in total*pct */
    want = ((total - used) < total * (unsigned)thr / 100 && vf_cfg[CFG_SAMPLE + t][2] >= vf_cfg[CFG_PARAM][4]) ? RET_CONTINUE : RET_STOP;
#elif H_DET == 6
    int any = 0; for (int k = 0; k < NCG; k++) if (S_EX(t, k) && matched(pat, k)) any = 1;
    want = (res ? !any : any) ? RET_CONTINUE : RET_STOP;
#elif H_DET == 7
    int any = 0; for (int k = 0; k < NCG; k++) if (S_EX(t, k) && matched(pat, k)) { int64_t nr = S_V1(t, k); if (res ? nr <= thr : nr > thr) any = 1; }
    want = any ? RET_CONTINUE : RET_STOP;
#endif
    if (judged) {
      VF_CHECK(ret[t] == want, "C08: detector verdict equals its documented predicate over the sample history");
      if (want == RET_CONTINUE && t > 0) VF_REACH("detector fires on a later tick");
      if (want == RET_STOP && t > 0 && ret[t - 1] == RET_CONTINUE) VF_REACH("detector stops firing after having fired");
    }
  }
  VF_CHECK(0, "WITNESS: oracle reached its end");
#ifndef __CPROVER__
  return vf_native_finish();
#endif
  return 0;
}
