// Harness for C08: one real core detector, constructed directly (fields set as init() would set them; init()'s parsing is
// covered by the config harnesses), run for H_T ticks on a world of two sibling cgroups that may appear and disappear,
// with symbolic samples around the threshold, symbolic irregular tick spacing and symbolic parameters.
#include "prelude.h"
#include "world.h"
#include "oomd/OomdContext.h"
#include "oomd/plugins/Exists.h"
#include "oomd/plugins/MemoryAbove.h"
#include "oomd/plugins/MemoryReclaim.h"
#include "oomd/plugins/NrDyingDescendants.h"
#include "oomd/plugins/PressureAbove.h"
#include "oomd/plugins/PressureRisingBeyond.h"
#include "oomd/plugins/SwapFree.h"
#include "detect_cfg.h"
#ifndef H_PAT
#define H_PAT 1
#endif
#ifndef H_EXMASK
#define H_EXMASK 0xffff
#endif
#ifndef H_SWAPBITS
#define H_SWAPBITS 24
#endif
using namespace Oomd;
enum { K_THR = 1, K_DUR = 2, K_RES = 3, K_PAT = 4, K_ADV = 5, K_AUX = 6, K_EX = 100, K_V = 200 };
template <class P> static void setCgroups(P& p, int pat) {
  if (pat == 0) p.cgroups_.insert(CgroupPath("/c", "a"));
  else if (pat == 1) p.cgroups_.insert(CgroupPath("/c", "*"));
  else { p.cgroups_.insert(CgroupPath("/c", "a")); p.cgroups_.insert(CgroupPath("/c", "b")); }
}
extern "C" void harness(void) {
  vfw::add("", "", -1); vfw::add("a", "a", 0); vfw::add("b", "b", 0);
  int thr = (int)vf_nd(K_THR, 0, 100), dur = (int)vf_nd(K_DUR, 0, 30), res = (int)vf_nd(K_RES, 0, 1); const int pat = H_PAT;   /* cgroup pattern is concrete per variant */
  vf_cfg_set(CFG_PARAM, 0, thr); vf_cfg_set(CFG_PARAM, 1, dur); vf_cfg_set(CFG_PARAM, 2, res); vf_cfg_set(CFG_PARAM, 3, pat);
#if H_DET == 1
  PressureAbove p; setCgroups(p, pat); p.resource_ = res ? ResourceType::IO : ResourceType::MEMORY; p.threshold_ = thr; p.duration_ = dur;
#elif H_DET == 2
  PressureRisingBeyond p; setCgroups(p, pat); p.resource_ = res ? ResourceType::IO : ResourceType::MEMORY; p.threshold_ = thr; p.duration_ = dur;
#elif H_DET == 3
  MemoryAbove p; setCgroups(p, pat); p.threshold_ = (int64_t)thr << 20; p.duration_ = dur; p.is_anon_ = res;
#elif H_DET == 4
  MemoryReclaim p; setCgroups(p, pat); p.duration_ = dur;
#elif H_DET == 5
  SwapFree p; p.threshold_pct_ = thr; int64_t bpsthr = vf_nd(K_AUX, 0, 1000); p.swapout_bps_threshold_ = bpsthr; vf_cfg_set(CFG_PARAM, 4, bpsthr);
#elif H_DET == 6
  Exists p; setCgroups(p, pat); p.negate_ = res;
#elif H_DET == 7
  NrDyingDescendants p; setCgroups(p, pat); p.count_ = thr; p.lte_ = res;
#endif
  OomdContext ctx;
#if H_DET == 4
  vf_clock_advance(31LL * 1000000000LL);   // uptime > any duration: the epoch sentinel of last_reclaim_at_ is not "recent"
#endif
  for (int t = 0; t < H_T; t++) {
    for (int k = 0; k < NCG; k++) {
      vfw::Node& n = vfw::nodes[1 + k];
      const int ex = (H_EXMASK >> (t * NCG + k)) & 1;   /* existence history is concrete per variant (keeps glob results and path strings concrete) */
      if (!ex && n.exists) vfw::remove_node(1 + k); else if (ex && !n.exists) vfw::recreate_node(1 + k);
      int64_t v1 = vf_nd(K_V + t * 16 + k * 4 + 0, 0, 404), v2 = vf_nd(K_V + t * 16 + k * 4 + 1, 0, 404), v3 = vf_nd(K_V + t * 16 + k * 4 + 2, 0, 404);
      vf_cfg_set(CFG_SAMPLE + t, k * 4, ex); vf_cfg_set(CFG_SAMPLE + t, k * 4 + 1, v1); vf_cfg_set(CFG_SAMPLE + t, k * 4 + 2, v2); vf_cfg_set(CFG_SAMPLE + t, k * 4 + 3, v3);
#if H_DET == 1 || H_DET == 2
      for (int r = 0; r < 2; r++) for (int f = 0; f < 2; f++) { n.psi[r][f][0] = 0; n.psi[r][f][1] = 0; n.psi[r][f][2] = 0; }
      n.psi[res][1][0] = (float)v1 / 4; n.psi[res][1][1] = (float)v2 / 4; n.psi[res][1][2] = (float)v3 / 4;   // quarter-percent steps in [0,101]
      n.cur = 1 << 20;
#elif H_DET == 3
      n.cur = res ? 0 : (v1 << 18); n.anon = res ? (v1 << 18) : 0; n.file = 0; n.shmem = 0;   // quarter-MiB steps around the MiB threshold
#elif H_DET == 4
      n.pgscan = v1; n.has_pgscan = v2 != 0; n.anon = n.file = n.shmem = 0;
#elif H_DET == 7
      n.nr_dying = v1;
#endif
    }
#if H_DET == 5
    SystemContext sc; sc.swaptotal = (uint64_t)vf_nd(K_AUX + 1, 0, 1LL << H_SWAPBITS); sc.swapused = (uint64_t)vf_nd(K_AUX + 2, 0, 1LL << H_SWAPBITS); vf_assume(sc.swapused <= sc.swaptotal);
    int64_t bps = vf_nd(K_AUX + 3, 0, 2000); sc.swapout_bps = (double)bps;
    vf_cfg_set(CFG_SAMPLE + t, 0, (int64_t)sc.swaptotal); vf_cfg_set(CFG_SAMPLE + t, 1, (int64_t)sc.swapused); vf_cfg_set(CFG_SAMPLE + t, 2, bps);
    ctx.setSystemContext(sc);
#endif
    vf_clock_advance(vf_nd(K_ADV, 0, 40LL * 1000000000LL));
    vf_event(EV_TICK, t, vf_clock_ns(), 0, 0);
    ctx.refresh();
    Engine::PluginRet r = p.run(ctx);
    vf_event(EV_NOTE, t, (int)r, 0, 0);
  }
  vf_event(EV_END, 0, 0, 0, 0);
}
