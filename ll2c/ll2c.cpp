// ll2c: LLVM-14 IR (typed pointers) -> C for CBMC.  Probe version.
// Every integer SSA value is an unsigned C integer of its width; signedness is per-operation.
// Arrays are wrapped in structs so they are first-class. Exceptions are modelled with a pending
// flag (vf_exc) that is tested after every potentially-throwing call.
#include <llvm/ADT/PostOrderIterator.h>
#include <llvm/IR/CFG.h>
#include <llvm/IR/Constants.h>
#include <llvm/IR/DataLayout.h>
#include <llvm/IR/Function.h>
#include <llvm/IR/GlobalAlias.h>
#include <llvm/IR/InstrTypes.h>
#include <llvm/IR/Instructions.h>
#include <llvm/IR/IntrinsicInst.h>
#include <llvm/IR/LLVMContext.h>
#include <llvm/IR/Module.h>
#include <llvm/IR/Operator.h>
#include <llvm/IRReader/IRReader.h>
#include <llvm/Support/SourceMgr.h>
#include <llvm/Support/raw_ostream.h>
#include <algorithm>
#include <cstdio>
#include <map>
#include <set>
#include <sstream>
#include <string>
#include <vector>
using namespace llvm;

static std::string san(StringRef s) {
  std::string r;
  for (char c : s) r += (isalnum((unsigned char)c) || c == '_') ? c : '_';
  if (r.empty() || isdigit((unsigned char)r[0])) r = "_" + r;
  return r;
}

struct Ctx {
  Module& M;
  const DataLayout& DL;
  std::map<Type*, std::string> tnames;       // simple name of every non-trivial type
  std::vector<Type*> torder;                 // definition order
  std::set<Type*> tdone, tvisiting;
  std::ostringstream types, protos, globals, funcs;
  std::map<const GlobalValue*, std::string> gnames;
  std::set<std::string> usednames;
  std::map<const GlobalVariable*, int> tiid;  // typeinfo ids
  std::set<std::string> externs;
  std::map<const Value*, Type*> allocType;   // typed allocation sites
  int ntypes = 0;
  Ctx(Module& m) : M(m), DL(m.getDataLayout()) {}

  std::string ity(unsigned w) {
    if (w == 1 || w == 8) return "uint8_t";
    if (w == 16) return "uint16_t";
    if (w == 32) return "uint32_t";
    if (w == 64) return "uint64_t";
    if (w == 128) return "unsigned __int128";
    return "unsigned __CPROVER_bitvector[" + std::to_string(w) + "]";
  }
  std::string sty(unsigned w) {
    if (w == 1 || w == 8) return "int8_t";
    if (w == 16) return "int16_t";
    if (w == 32) return "int32_t";
    if (w == 64) return "int64_t";
    if (w == 128) return "__int128";
    return "signed __CPROVER_bitvector[" + std::to_string(w) + "]";
  }
  // returns a C type usable as "T name"
  std::string ty(Type* t) {
    if (t->isVoidTy()) return "void";
    if (auto* it = dyn_cast<IntegerType>(t)) {
      unsigned w = it->getBitWidth();
      if (w == 1 || w == 8 || w == 16 || w == 32 || w == 64) return ity(w);
      auto f = tnames.find(t);
      if (f != tnames.end()) return f->second;
      std::string n = "vf_i" + std::to_string(w);
      tnames[t] = n;
      types << "typedef " << ity(w) << " " << n << ";\n";
      return n;
    }
    if (t->isFloatTy()) return "float";
    if (t->isDoubleTy()) return "double";
    if (t->isX86_FP80Ty()) return "long double";
    if (auto* pt = dyn_cast<PointerType>(t)) {
      Type* e = pt->getPointerElementType();
      if (e->isFunctionTy()) return ty(e) + "*";
      if (e->isVoidTy()) return "uint8_t*";
      return tyfwd(e) + "*";
    }
    auto f = tnames.find(t);
    if (f != tnames.end()) { define(t); return f->second; }
    name(t);
    define(t);
    return tnames[t];
  }
  // name usable behind a pointer (no definition required)
  std::string tyfwd(Type* t) {
    if (t->isStructTy() || t->isArrayTy()) { name(t); return tnames[t]; }
    return ty(t);
  }
  void name(Type* t) {
    if (tnames.count(t)) return;
    if (auto* st = dyn_cast<StructType>(t)) {
      std::string n = "struct S" + std::to_string(ntypes++) + "_" + (st->hasName() ? san(st->getName()).substr(0, 40) : std::string("anon"));
      tnames[t] = n;
      types << n << ";\n";
    } else if (auto* at = dyn_cast<ArrayType>(t)) {
      (void)at;
      std::string n = "struct A" + std::to_string(ntypes++);
      tnames[t] = n;
      types << n << ";\n";
    } else if (auto* ft = dyn_cast<FunctionType>(t)) {
      std::string n = "F" + std::to_string(ntypes++);
      tnames[t] = n;
      std::string r = ty(ft->getReturnType());
      std::string a;
      for (unsigned i = 0; i < ft->getNumParams(); i++) a += (i ? ", " : "") + ty(ft->getParamType(i));
      if (ft->isVarArg()) a += a.empty() ? "" : ", ...";
      if (a.empty()) a = ft->isVarArg() ? "" : "void";
      types << "typedef " << r << " " << n << "(" << a << ");\n";
    } else {
      errs() << "unsupported type: " << *t << "\n";
      tnames[t] = "UNSUPPORTED";
    }
  }
  void define(Type* t) {
    if (tdone.count(t)) return;
    if (tvisiting.count(t)) return;
    if (auto* st = dyn_cast<StructType>(t)) {
      if (st->isOpaque()) { tdone.insert(t); return; }
      tvisiting.insert(t);
      std::vector<std::string> f;
      for (unsigned i = 0; i < st->getNumElements(); i++) f.push_back(ty(st->getElementType(i)));
      std::ostringstream o;
      o << tnames[t] << " {";
      for (unsigned i = 0; i < f.size(); i++) o << " " << f[i] << " f" << i << ";";
      if (f.empty()) o << " char vf_empty;";
      o << " }" << (st->isPacked() ? " __attribute__((packed))" : "") << ";\n";
      types << o.str();
      tvisiting.erase(t);
      tdone.insert(t);
    } else if (auto* at = dyn_cast<ArrayType>(t)) {
      tvisiting.insert(t);
      std::string e = ty(at->getElementType());
      uint64_t n = at->getNumElements();
      types << tnames[t] << " { " << e << " e[" << (n ? n : 1) << "]; };\n";
      tvisiting.erase(t);
      tdone.insert(t);
    } else
      tdone.insert(t);
  }

  std::string gname(const GlobalValue* g) {
    auto f = gnames.find(g);
    if (f != gnames.end()) return f->second;
    std::string n = san(g->getName());
    bool ext = g->isDeclaration();
    if (ext && isa<Function>(g) && n.rfind("vf_", 0) != 0 && n.rfind("vfx_", 0) != 0) n = "vfx_" + n;  // environment: must be provided by the harness runtime
    while (usednames.count(n)) n += "_";
    usednames.insert(n);
    gnames[g] = n;
    return n;
  }
};

struct FnEmit;
static std::string cexpr(Ctx& C, Constant* c, bool init);
// Static type of the whole object that starts at address v and is len bytes long, if it can be read off the IR: either v is
// (a cast of) a pointer to a sized aggregate of that size, or a GEP whose trailing indices are all zero ("address of the
// first member of the first member ...") through an aggregate of that size.
static Type* objTypeAt(const DataLayout& DL, Value* v, uint64_t len) {
  v = v->stripPointerCasts();
  Type* e = v->getType()->getPointerElementType();
  if (e->isSized() && (e->isStructTy() || e->isArrayTy()) && DL.getTypeAllocSize(e) == len) return e;
  {  // address of an object = address of its first member (recursively): &ctx == &ctx.first_string
    Type* t = e;
    for (int d = 0; d < 8 && t->isSized() && DL.getTypeAllocSize(t) > len; d++) {
      if (auto* st = dyn_cast<StructType>(t)) { if (!st->getNumElements()) break; t = st->getElementType(0); }
      else if (auto* at = dyn_cast<ArrayType>(t)) t = at->getElementType();
      else break;
      if (t->isSized() && (t->isStructTy() || t->isArrayTy()) && DL.getTypeAllocSize(t) == len) return t;
    }
  }
  auto* g = dyn_cast<GEPOperator>(v);
  if (!g) return nullptr;
  std::vector<Type*> tys; std::vector<bool> zero;
  Type* cur = g->getSourceElementType();
  unsigned n = g->getNumIndices(), k = 0;
  for (auto it = g->idx_begin(); it != g->idx_end(); ++it, ++k) {
    auto* ci = dyn_cast<ConstantInt>(it->get());
    if (k > 0) {
      if (auto* st = dyn_cast<StructType>(cur)) { if (!ci) return nullptr; cur = st->getElementType(ci->getZExtValue()); }
      else if (auto* at = dyn_cast<ArrayType>(cur)) cur = at->getElementType();
      else return nullptr;
    }
    tys.push_back(cur); zero.push_back(ci && ci->isZero());
  }
  // tys[i] = type addressed after applying indices 0..i ; candidate i is valid if indices i+1..n-1 are all zero
  for (unsigned i = 0; i + 1 < n; i++) {
    bool allz = true; for (unsigned j = i + 1; j < n; j++) if (!zero[j]) allz = false;
    Type* t = i == 0 ? g->getSourceElementType() : tys[i];
    if (allz && t->isSized() && (t->isStructTy() || t->isArrayTy()) && DL.getTypeAllocSize(t) == len) return t;
  }
  {  // the GEP addresses an aggregate larger than len: its leading member chain
    Type* t = n ? tys[n - 1] : nullptr;
    for (int d = 0; t && d < 8 && t->isSized() && DL.getTypeAllocSize(t) >= len; d++) {
      if (t->isSized() && (t->isStructTy() || t->isArrayTy()) && DL.getTypeAllocSize(t) == len) return t;
      if (auto* st = dyn_cast<StructType>(t)) { if (!st->getNumElements()) break; t = st->getElementType(0); }
      else if (auto* at = dyn_cast<ArrayType>(t)) t = at->getElementType();
      else break;
    }
  }
  return nullptr;
}
// C string literal behind a constant i8* (GEP into / pointer to a constant char array), or "" if not a literal
// strlen of a pointer to the first character of a constant NUL-terminated global: folded at translation time
static bool constStrLen(Value* v, uint64_t& len) {
  v = v->stripPointerCasts();
  if (auto* ce = dyn_cast<ConstantExpr>(v)) {
    if (ce->getOpcode() != Instruction::GetElementPtr) return false;
    for (unsigned k = 1; k < ce->getNumOperands(); k++) { auto* ci = dyn_cast<ConstantInt>(ce->getOperand(k)); if (!ci || !ci->isZero()) return false; }
    v = ce->getOperand(0)->stripPointerCasts();
  }
  auto* g = dyn_cast<GlobalVariable>(v);
  if (!g || !g->hasInitializer() || !g->isConstant()) return false;
  if (isa<ConstantAggregateZero>(g->getInitializer())) { len = 0; return true; }
  auto* cds = dyn_cast<ConstantDataSequential>(g->getInitializer());
  if (!cds || !cds->isString()) return false;
  StringRef raw = cds->getAsString();
  size_t z = raw.find('\0');
  if (z == StringRef::npos) return false;
  len = z; return true;
}
static bool literalOf(Value* v, std::string& out) {
  v = v->stripPointerCasts();
  if (auto* ce = dyn_cast<ConstantExpr>(v)) if (ce->getOpcode() == Instruction::GetElementPtr) v = ce->getOperand(0)->stripPointerCasts();
  auto* g = dyn_cast<GlobalVariable>(v);
  if (!g || !g->hasInitializer()) return false;
  auto* cds = dyn_cast<ConstantDataSequential>(g->getInitializer());
  if (!cds || !cds->isString()) { if (isa<ConstantAggregateZero>(g->getInitializer())) { out = ""; return true; } return false; }
  std::string raw = cds->getAsString().str();
  out.clear();
  for (char c : raw) { if (c == 0) break; if (c == '"' || c == '\\') { out += '\\'; out += c; } else if (c == '\n') out += "\\n"; else if ((unsigned char)c < 32 || (unsigned char)c > 126) out += '?'; else out += c; }
  return true;
}

static std::string zeroOf(Ctx& C, Type* t, bool init) {
  if (t->isIntegerTy() || t->isFloatingPointTy()) return "0";
  if (t->isPointerTy()) return init ? "0" : "((" + C.ty(t) + ")0)";
  return init ? "{0}" : "((" + C.ty(t) + "){0})";
}

static std::string fplit(const APFloat& f, Type* t) {
  if (f.isNaN()) return t->isFloatTy() ? "__builtin_nanf(\"\")" : "__builtin_nan(\"\")";
  if (f.isInfinity()) return std::string(f.isNegative() ? "-" : "") + (t->isFloatTy() ? "__builtin_inff()" : "__builtin_inf()");
  char buf[64];
  if (t->isFloatTy()) { snprintf(buf, sizeof buf, "%af", (double)f.convertToFloat()); return buf; }
  if (t->isDoubleTy()) { snprintf(buf, sizeof buf, "%a", f.convertToDouble()); return buf; }
  bool li; APFloat d = f; d.convert(APFloat::IEEEdouble(), APFloat::rmNearestTiesToEven, &li);
  snprintf(buf, sizeof buf, "%aL", d.convertToDouble());
  return buf;
}

static std::string gepExpr(Ctx& C, Type* srcTy, const std::string& base, std::vector<std::pair<Value*, std::string>> idx) {
  // idx[i].second is the C expression of the index (already signed-cast for dynamic ones)
  std::string lv;
  bool zero0 = false;
  if (auto* ci = dyn_cast<ConstantInt>(idx[0].first)) zero0 = ci->isZero();
  if (idx.size() == 1) return "(" + base + " + " + idx[0].second + ")";
  lv = zero0 ? "(*" + base + ")" : "(*(" + base + " + " + idx[0].second + "))";
  Type* cur = srcTy;
  for (size_t i = 1; i < idx.size(); i++) {
    if (auto* st = dyn_cast<StructType>(cur)) {
      unsigned k = cast<ConstantInt>(idx[i].first)->getZExtValue();
      lv += ".f" + std::to_string(k);
      cur = st->getElementType(k);
    } else if (auto* at = dyn_cast<ArrayType>(cur)) {
      lv += ".e[" + idx[i].second + "]";
      cur = at->getElementType();
    } else {
      errs() << "gep into non-aggregate\n";
    }
  }
  C.ty(srcTy);
  return "(&" + lv + ")";
}

static std::string cexpr(Ctx& C, Constant* c, bool init) {
  Type* t = c->getType();
  if (auto* ci = dyn_cast<ConstantInt>(c)) {
    unsigned w = ci->getBitWidth();
    if (w <= 64) {
      std::string s = std::to_string(ci->getZExtValue());
      return w == 64 ? s + "ull" : (w == 32 ? s + "u" : s);
    }
    // wide ints: build from 64-bit pieces
    APInt v = ci->getValue();
    std::string s = "0";
    for (int i = (w + 63) / 64 - 1; i >= 0; i--) s = "((" + s + " << 64) | (" + C.ty(t) + ")" + std::to_string(v.extractBitsAsZExtValue(std::min(64u, w - i * 64), i * 64)) + "ull)";
    return "((" + C.ty(t) + ")" + s + ")";
  }
  if (auto* cf = dyn_cast<ConstantFP>(c)) return fplit(cf->getValueAPF(), t);
  if (isa<ConstantPointerNull>(c)) return init ? "0" : "((" + C.ty(t) + ")0)";
  if (isa<UndefValue>(c) || isa<ConstantAggregateZero>(c)) return zeroOf(C, t, init);
  if (auto* ga = dyn_cast<GlobalAlias>(c)) return cexpr(C, ga->getAliasee(), init);
  if (auto* f = dyn_cast<Function>(c)) return "(&" + C.gname(f) + ")";
  if (auto* g = dyn_cast<GlobalVariable>(c)) {
    if (g->getName().startswith("_ZTI")) return "((" + C.ty(t) + ")&" + C.gname(g) + ")";
    return "(&" + C.gname(g) + ")";
  }
  if (auto* cds = dyn_cast<ConstantDataSequential>(c)) {
    std::string s = "{ {";
    for (unsigned i = 0; i < cds->getNumElements(); i++) s += (i ? "," : "") + cexpr(C, cds->getElementAsConstant(i), true);
    s += "} }";
    return init ? s : "((" + C.ty(t) + ")" + s + ")";
  }
  if (auto* ca = dyn_cast<ConstantArray>(c)) {
    std::string s = "{ {";
    for (unsigned i = 0; i < ca->getNumOperands(); i++) s += (i ? "," : "") + cexpr(C, ca->getOperand(i), true);
    s += "} }";
    return init ? s : "((" + C.ty(t) + ")" + s + ")";
  }
  if (auto* cs = dyn_cast<ConstantStruct>(c)) {
    std::string s = "{";
    for (unsigned i = 0; i < cs->getNumOperands(); i++) s += (i ? "," : "") + cexpr(C, cs->getOperand(i), true);
    s += "}";
    return init ? s : "((" + C.ty(t) + ")" + s + ")";
  }
  if (auto* ce = dyn_cast<ConstantExpr>(c)) {
    switch (ce->getOpcode()) {
      case Instruction::BitCast:
      case Instruction::AddrSpaceCast:
      case Instruction::IntToPtr:
        return "((" + C.ty(t) + ")" + cexpr(C, ce->getOperand(0), false) + ")";
      case Instruction::PtrToInt:
        return "((" + C.ty(t) + ")(uintptr_t)" + cexpr(C, ce->getOperand(0), false) + ")";
      case Instruction::GetElementPtr: {
        auto* g = cast<GEPOperator>(ce);
        std::vector<std::pair<Value*, std::string>> idx;
        for (auto it = g->idx_begin(); it != g->idx_end(); ++it) {
          auto* ci = cast<ConstantInt>(it->get());
          idx.push_back({ci, std::to_string(ci->getSExtValue())});
        }
        return gepExpr(C, g->getSourceElementType(), cexpr(C, cast<Constant>(g->getPointerOperand()), false), idx);
      }
      case Instruction::Add: return "(" + cexpr(C, ce->getOperand(0), false) + " + " + cexpr(C, ce->getOperand(1), false) + ")";
      case Instruction::Sub: return "(" + cexpr(C, ce->getOperand(0), false) + " - " + cexpr(C, ce->getOperand(1), false) + ")";
      case Instruction::Trunc: case Instruction::ZExt: return "((" + C.ty(t) + ")" + cexpr(C, ce->getOperand(0), false) + ")";
      default: break;
    }
  }
  errs() << "unsupported constant: " << *c << "\n";
  return "0/*unsupported*/";
}

struct FnEmit {
  Ctx& C;
  Function& F;
  std::ostringstream decl, body;
  std::map<const Value*, std::string> names;
  std::map<const BasicBlock*, std::string> bbn;
  int nv = 0;
  FnEmit(Ctx& c, Function& f) : C(c), F(f) {}

  std::string val(Value* v) {
    if (auto* c = dyn_cast<Constant>(v)) return cexpr(C, c, false);
    auto f = names.find(v);
    if (f != names.end()) return f->second;
    errs() << "unnamed value " << *v << "\n";
    return "?";
  }
  std::string sval(Value* v) {  // signed view of an integer value
    unsigned w = v->getType()->getIntegerBitWidth();
    if (w == 1) return "((int8_t)(" + val(v) + " ? -1 : 0))";
    return "((" + C.sty(w) + ")" + val(v) + ")";
  }
  std::string retZero() {
    Type* rt = F.getReturnType();
    if (rt->isVoidTy()) return "return;";
    return "return " + zeroOf(C, rt, false) + ";";
  }
  void edge(BasicBlock* from, BasicBlock* to, std::ostringstream& o) {
    for (PHINode& p : to->phis()) o << names[&p] << "_in = " << val(p.getIncomingValueForBlock(from)) << "; ";
    o << "goto " << bbn[to] << ";";
  }
  bool mayThrow(CallBase& cb) { return !cb.doesNotThrow(); }

  void run() {
    int nb = 0;
    unsigned ai = 0;
    for (Argument& a : F.args()) names[&a] = "a" + std::to_string(ai++);
    for (BasicBlock& b : F) {
      bbn[&b] = "bb" + std::to_string(nb++);
      for (Instruction& i : b)
        if (!i.getType()->isVoidTy()) {
          std::string n = "v" + std::to_string(nv++);
          names[&i] = n;
          decl << "  " << C.ty(i.getType()) << " " << n << ";";
          if (isa<PHINode>(i)) decl << " " << C.ty(i.getType()) << " " << n << "_in;";
          decl << "\n";
        }
    }
    // blocks are emitted in reverse post-order: loop exits become forward jumps and only real back edges jump backwards.
    // (CBMC identifies loops by backward jumps; with LLVM's block layout, exits that jump backwards made inner-loop
    // unwinding counters accumulate across outer iterations.) Blocks unreachable from the entry are not emitted.
    ReversePostOrderTraversal<Function*> rpo(&F);
    std::vector<BasicBlock*> order(rpo.begin(), rpo.end());
    if (getenv("LL2C_LAYOUT_ORDER")) { order.clear(); for (BasicBlock& b0 : F) order.push_back(&b0); }   // (debugging aid: LLVM's own block layout)
    for (BasicBlock* bp : order) {
      BasicBlock& b = *bp;
      body << bbn[&b] << ": ;\n";
      for (PHINode& p : b.phis()) body << "  " << names[&p] << " = " << names[&p] << "_in;\n";
      for (Instruction& i : b) inst(i);
    }
  }

  std::string callee(CallBase& cb) {
    Value* cv = cb.getCalledOperand()->stripPointerCasts();
    if (auto* ga = dyn_cast<GlobalAlias>(cv)) cv = ga->getAliasee()->stripPointerCasts();
    if (auto* f = dyn_cast<Function>(cv)) {
      if (f->getFunctionType() == cb.getFunctionType()) return C.gname(f);
      return "((" + C.ty(cb.getFunctionType()) + "*)" + C.gname(f) + ")";
    }
    return "((" + C.ty(cb.getFunctionType()) + "*)" + val(cb.getCalledOperand()) + ")";
  }

  void afterCall(CallBase& cb) {
    if (auto* inv = dyn_cast<InvokeInst>(&cb)) {
      body << "  if (vf_exc) { ";
      edge(inv->getParent(), inv->getUnwindDest(), body);
      body << " }\n  ";
      edge(inv->getParent(), inv->getNormalDest(), body);
      body << "\n";
    } else if (mayThrow(cb)) {
      body << "  if (vf_exc) " << retZero() << "\n";
    }
  }

  bool intrinsic(CallBase& cb, const std::string& lhs) {
    Function* f = cb.getCalledFunction();
    if (!f || !f->isIntrinsic()) return false;
    auto A = [&](unsigned i) { return val(cb.getArgOperand(i)); };
    Type* rt = cb.getType();
    switch (f->getIntrinsicID()) {
      case Intrinsic::lifetime_start: case Intrinsic::lifetime_end: case Intrinsic::dbg_declare: case Intrinsic::dbg_value: case Intrinsic::dbg_label:
      case Intrinsic::assume: case Intrinsic::experimental_noalias_scope_decl: case Intrinsic::invariant_start: case Intrinsic::invariant_end: case Intrinsic::donothing:
      case Intrinsic::stackrestore: case Intrinsic::prefetch:
        return true;
      case Intrinsic::stacksave: body << "  " << lhs << "0;\n"; return true;
      case Intrinsic::memcpy: case Intrinsic::memcpy_inline: case Intrinsic::memmove: {
        // whole-object copy of a typed aggregate: emit a typed struct assignment (keeps the checker field-sensitive)
        Value* d0 = cb.getArgOperand(0)->stripPointerCasts(); Value* s0 = cb.getArgOperand(1)->stripPointerCasts();
        auto* len = dyn_cast<ConstantInt>(cb.getArgOperand(2));
        Type* dt = d0->getType()->getPointerElementType(); Type* st = s0->getType()->getPointerElementType();
        if (len && dt == st && dt->isSized() && (dt->isStructTy() || dt->isArrayTy()) && C.DL.getTypeAllocSize(dt) == len->getZExtValue()) {
          body << "  *" << val(d0) << " = *" << val(s0) << ";\n"; return true;
        }
        body << "  " << (f->getIntrinsicID() == Intrinsic::memmove ? "memmove(" : "memcpy(") << A(0) << ", " << A(1) << ", " << A(2) << ");\n"; return true;
      }
      case Intrinsic::memset: {
        // zero-fill of a whole typed object: typed aggregate assignment
        auto* len = dyn_cast<ConstantInt>(cb.getArgOperand(2)); auto* bv = dyn_cast<ConstantInt>(cb.getArgOperand(1));
        Value* d0 = cb.getArgOperand(0)->stripPointerCasts();
        Type* t = nullptr;
        if (len && bv && bv->isZero()) { t = objTypeAt(C.DL, cb.getArgOperand(0), len->getZExtValue()); if (!t) { auto f2 = C.allocType.find(d0); if (f2 != C.allocType.end() && C.DL.getTypeAllocSize(f2->second) == len->getZExtValue()) t = f2->second; } }
        if (t) { std::string tn = C.ty(t); body << "  *(" << tn << "*)" << A(0) << " = (" << tn << "){0};\n"; return true; }
        body << "  memset(" << A(0) << ", " << A(1) << ", " << A(2) << ");\n"; return true;
      }
      case Intrinsic::trap: body << "  vf_trap();\n"; return true;
      case Intrinsic::expect: body << "  " << lhs << A(0) << ";\n"; return true;
      case Intrinsic::is_constant: body << "  " << lhs << "0;\n"; return true;
      case Intrinsic::objectsize: body << "  " << lhs << "(" << C.ty(rt) << ")-1;\n"; return true;
      case Intrinsic::fabs: body << "  " << lhs << (rt->isFloatTy() ? "fabsf(" : "fabs(") << A(0) << ");\n"; return true;
      case Intrinsic::ceil: body << "  " << lhs << (rt->isFloatTy() ? "ceilf(" : "ceil(") << A(0) << ");\n"; return true;
      case Intrinsic::floor: body << "  " << lhs << (rt->isFloatTy() ? "floorf(" : "floor(") << A(0) << ");\n"; return true;
      case Intrinsic::fmuladd: body << "  " << lhs << "(" << A(0) << " * " << A(1) << " + " << A(2) << ");\n"; return true;
      case Intrinsic::exp: body << "  " << lhs << "vfx_exp(" << A(0) << ");\n"; return true;
      case Intrinsic::umax: body << "  " << lhs << "(" << A(0) << " > " << A(1) << " ? " << A(0) << " : " << A(1) << ");\n"; return true;
      case Intrinsic::umin: body << "  " << lhs << "(" << A(0) << " < " << A(1) << " ? " << A(0) << " : " << A(1) << ");\n"; return true;
      case Intrinsic::smax: body << "  " << lhs << "(" << sval(cb.getArgOperand(0)) << " > " << sval(cb.getArgOperand(1)) << " ? " << A(0) << " : " << A(1) << ");\n"; return true;
      case Intrinsic::smin: body << "  " << lhs << "(" << sval(cb.getArgOperand(0)) << " < " << sval(cb.getArgOperand(1)) << " ? " << A(0) << " : " << A(1) << ");\n"; return true;
      case Intrinsic::abs: body << "  " << lhs << "(" << sval(cb.getArgOperand(0)) << " < 0 ? (" << C.ty(rt) << ")(0 - " << A(0) << ") : " << A(0) << ");\n"; return true;
      case Intrinsic::eh_typeid_for: {
        auto* g = dyn_cast<GlobalVariable>(cb.getArgOperand(0)->stripPointerCasts());
        body << "  " << lhs << (g ? C.tiid[g] : 0) << ";\n";
        return true;
      }
      case Intrinsic::uadd_with_overflow: case Intrinsic::usub_with_overflow: case Intrinsic::umul_with_overflow:
      case Intrinsic::sadd_with_overflow: case Intrinsic::ssub_with_overflow: case Intrinsic::smul_with_overflow: {
        auto id = f->getIntrinsicID();
        bool sg = id == Intrinsic::sadd_with_overflow || id == Intrinsic::ssub_with_overflow || id == Intrinsic::smul_with_overflow;
        const char* op = (id == Intrinsic::uadd_with_overflow || id == Intrinsic::sadd_with_overflow) ? "add" : (id == Intrinsic::usub_with_overflow || id == Intrinsic::ssub_with_overflow) ? "sub" : "mul";
        unsigned w = cb.getArgOperand(0)->getType()->getIntegerBitWidth();
        std::string n = names[&cb];
        if (sg) body << "  { " << C.sty(w) << " r_; " << n << ".f1 = __builtin_" << op << "_overflow(" << sval(cb.getArgOperand(0)) << ", " << sval(cb.getArgOperand(1)) << ", &r_); " << n << ".f0 = (" << C.ity(w) << ")r_; }\n";
        else body << "  { " << C.ity(w) << " r_; " << n << ".f1 = __builtin_" << op << "_overflow(" << A(0) << ", " << A(1) << ", &r_); " << n << ".f0 = r_; }\n";
        return true;
      }
      default:
        errs() << "unsupported intrinsic " << f->getName() << "\n";
        body << "  vf_unsupported(\"" << f->getName().str() << "\");\n";
        return true;
    }
  }

  void inst(Instruction& I) {
    std::string lhs = I.getType()->isVoidTy() ? "" : names[&I] + " = ";
    std::string T = I.getType()->isVoidTy() ? "" : C.ty(I.getType());
    auto V = [&](unsigned i) { return val(I.getOperand(i)); };
    if (auto* bo = dyn_cast<BinaryOperator>(&I)) {
      const char* op = nullptr;
      bool sg = false, fp = false;
      switch (bo->getOpcode()) {
        case Instruction::Add: op = "+"; break; case Instruction::Sub: op = "-"; break; case Instruction::Mul: op = "*"; break;
        case Instruction::UDiv: op = "/"; break; case Instruction::URem: op = "%"; break;
        case Instruction::SDiv: op = "/"; sg = true; break; case Instruction::SRem: op = "%"; sg = true; break;
        case Instruction::Shl: op = "<<"; break; case Instruction::LShr: op = ">>"; break; case Instruction::AShr: op = ">>"; sg = true; break;
        case Instruction::And: op = "&"; break; case Instruction::Or: op = "|"; break; case Instruction::Xor: op = "^"; break;
        case Instruction::FAdd: op = "+"; fp = true; break; case Instruction::FSub: op = "-"; fp = true; break; case Instruction::FMul: op = "*"; fp = true; break; case Instruction::FDiv: op = "/"; fp = true; break;
        case Instruction::FRem: body << "  " << lhs << "fmod(" << V(0) << ", " << V(1) << ");\n"; return;
        default: break;
      }
      if (fp) { body << "  " << lhs << "(" << V(0) << " " << op << " " << V(1) << ");\n"; return; }
      unsigned w = I.getType()->getIntegerBitWidth();
      // source-level signed overflow is UB (nsw): report it
      if (auto* obo = dyn_cast<OverflowingBinaryOperator>(&I))
        if (obo->hasNoSignedWrap() && (bo->getOpcode() == Instruction::Add || bo->getOpcode() == Instruction::Sub || bo->getOpcode() == Instruction::Mul) && w >= 8) {
          const char* nm = bo->getOpcode() == Instruction::Add ? "add" : bo->getOpcode() == Instruction::Sub ? "sub" : "mul";
          body << "  { " << C.sty(w) << " r_; if (__builtin_" << nm << "_overflow(" << sval(I.getOperand(0)) << ", " << sval(I.getOperand(1)) << ", &r_)) VF_CHECK(0, \"UB: signed integer overflow\"); }\n";
        }
      if (sg && (bo->getOpcode() == Instruction::AShr))
        body << "  " << lhs << "(" << T << ")(" << sval(I.getOperand(0)) << " >> " << V(1) << ");\n";
      else if (sg)
        body << "  " << lhs << "(" << T << ")(" << sval(I.getOperand(0)) << " " << op << " " << sval(I.getOperand(1)) << ");\n";
      else
        body << "  " << lhs << "(" << T << ")(" << V(0) << " " << op << " " << V(1) << ");\n";
      return;
    }
    if (auto* u = dyn_cast<UnaryOperator>(&I)) { body << "  " << lhs << "(-" << val(u->getOperand(0)) << ");\n"; return; }
    if (auto* ic = dyn_cast<ICmpInst>(&I)) {
      Type* ot = ic->getOperand(0)->getType();
      const char* op;
      bool sg = false;
      switch (ic->getPredicate()) {
        case CmpInst::ICMP_EQ: op = "=="; break; case CmpInst::ICMP_NE: op = "!="; break;
        case CmpInst::ICMP_UGT: op = ">"; break; case CmpInst::ICMP_UGE: op = ">="; break; case CmpInst::ICMP_ULT: op = "<"; break; case CmpInst::ICMP_ULE: op = "<="; break;
        case CmpInst::ICMP_SGT: op = ">"; sg = true; break; case CmpInst::ICMP_SGE: op = ">="; sg = true; break; case CmpInst::ICMP_SLT: op = "<"; sg = true; break; case CmpInst::ICMP_SLE: op = "<="; sg = true; break;
        default: op = "=="; break;
      }
      if (ot->isPointerTy()) {
        bool eq = ic->isEquality();
        if (eq) body << "  " << lhs << "((const void*)" << V(0) << " " << op << " (const void*)" << V(1) << ");\n";
        else body << "  " << lhs << "((uintptr_t)" << V(0) << " " << op << " (uintptr_t)" << V(1) << ");\n";
      } else if (sg) body << "  " << lhs << "(" << sval(I.getOperand(0)) << " " << op << " " << sval(I.getOperand(1)) << ");\n";
      else body << "  " << lhs << "(" << V(0) << " " << op << " " << V(1) << ");\n";
      return;
    }
    if (auto* fc = dyn_cast<FCmpInst>(&I)) {
      std::string a = V(0), b = V(1), e;
      switch (fc->getPredicate()) {
        case CmpInst::FCMP_OEQ: e = a + " == " + b; break; case CmpInst::FCMP_OGT: e = a + " > " + b; break; case CmpInst::FCMP_OGE: e = a + " >= " + b; break;
        case CmpInst::FCMP_OLT: e = a + " < " + b; break; case CmpInst::FCMP_OLE: e = a + " <= " + b; break; case CmpInst::FCMP_ONE: e = "(" + a + " < " + b + ") || (" + a + " > " + b + ")"; break;
        case CmpInst::FCMP_ORD: e = "(" + a + " == " + a + ") && (" + b + " == " + b + ")"; break; case CmpInst::FCMP_UNO: e = "(" + a + " != " + a + ") || (" + b + " != " + b + ")"; break;
        case CmpInst::FCMP_UEQ: e = "!((" + a + " < " + b + ") || (" + a + " > " + b + "))"; break; case CmpInst::FCMP_UGT: e = "!(" + a + " <= " + b + ")"; break; case CmpInst::FCMP_UGE: e = "!(" + a + " < " + b + ")"; break;
        case CmpInst::FCMP_ULT: e = "!(" + a + " >= " + b + ")"; break; case CmpInst::FCMP_ULE: e = "!(" + a + " > " + b + ")"; break; case CmpInst::FCMP_UNE: e = a + " != " + b; break;
        case CmpInst::FCMP_TRUE: e = "1"; break; default: e = "0"; break;
      }
      body << "  " << lhs << "(" << e << ");\n";
      return;
    }
    if (auto* ci = dyn_cast<CastInst>(&I)) {
      Value* o = ci->getOperand(0);
      switch (ci->getOpcode()) {
        case Instruction::Trunc:
          if (I.getType()->isIntegerTy(1)) body << "  " << lhs << "(" << val(o) << " & 1);\n";
          else body << "  " << lhs << "(" << T << ")" << val(o) << ";\n";
          return;
        case Instruction::ZExt: body << "  " << lhs << "(" << T << ")" << val(o) << ";\n"; return;
        case Instruction::SExt: body << "  " << lhs << "(" << T << ")(" << C.sty(I.getType()->getIntegerBitWidth()) << ")" << sval(o) << ";\n"; return;
        case Instruction::FPToUI: body << "  " << lhs << "(" << T << ")" << val(o) << ";\n"; return;
        case Instruction::FPToSI: body << "  " << lhs << "(" << T << ")(" << C.sty(I.getType()->getIntegerBitWidth()) << ")" << val(o) << ";\n"; return;
        case Instruction::UIToFP: body << "  " << lhs << "(" << T << ")" << val(o) << ";\n"; return;
        case Instruction::SIToFP: body << "  " << lhs << "(" << T << ")" << sval(o) << ";\n"; return;
        case Instruction::FPTrunc: case Instruction::FPExt: body << "  " << lhs << "(" << T << ")" << val(o) << ";\n"; return;
        case Instruction::PtrToInt: body << "  " << lhs << "(" << T << ")(uintptr_t)" << val(o) << ";\n"; return;
        case Instruction::IntToPtr: body << "  " << lhs << "(" << T << ")(uintptr_t)" << val(o) << ";\n"; return;
        case Instruction::BitCast:
          if (I.getType()->isPointerTy()) body << "  " << lhs << "(" << T << ")" << val(o) << ";\n";
          else body << "  { " << C.ty(o->getType()) << " t_ = " << val(o) << "; memcpy(&" << names[&I] << ", &t_, sizeof t_); }\n";
          return;
        default: break;
      }
    }
    if (auto* al = dyn_cast<AllocaInst>(&I)) {
      std::string et = C.ty(al->getAllocatedType());
      std::string sn = names[&I] + "_s";
      uint64_t n = 1;
      if (auto* c = dyn_cast<ConstantInt>(al->getArraySize())) n = c->getZExtValue();
      else errs() << "dynamic alloca in " << F.getName() << "\n";
      if (n == 1) { decl << "  " << et << " " << sn << ";\n"; body << "  " << lhs << "&" << sn << ";\n"; }
      else { decl << "  " << et << " " << sn << "[" << n << "];\n"; body << "  " << lhs << sn << ";\n"; }
      return;
    }
    if (auto* ld = dyn_cast<LoadInst>(&I)) { body << "  " << lhs << "*" << val(ld->getPointerOperand()) << ";\n"; return; }
    if (auto* st = dyn_cast<StoreInst>(&I)) { body << "  *" << val(st->getPointerOperand()) << " = " << val(st->getValueOperand()) << ";\n"; return; }
    if (auto* g = dyn_cast<GetElementPtrInst>(&I)) {
      std::vector<std::pair<Value*, std::string>> idx;
      for (auto it = g->idx_begin(); it != g->idx_end(); ++it) {
        Value* v = it->get();
        if (auto* c = dyn_cast<ConstantInt>(v)) idx.push_back({v, std::to_string(c->getSExtValue())});
        else idx.push_back({v, "(int64_t)" + sval(v)});
      }
      body << "  " << lhs << gepExpr(C, g->getSourceElementType(), val(g->getPointerOperand()), idx) << ";\n";
      return;
    }
    if (auto* se = dyn_cast<SelectInst>(&I)) { body << "  " << lhs << "(" << V(0) << " ? " << V(1) << " : " << V(2) << ");\n"; return; }
    if (isa<PHINode>(I)) return;
    if (auto* ev = dyn_cast<ExtractValueInst>(&I)) {
      std::string e = val(ev->getAggregateOperand());
      Type* cur = ev->getAggregateOperand()->getType();
      for (unsigned k : ev->indices()) {
        if (auto* st = dyn_cast<StructType>(cur)) { e += ".f" + std::to_string(k); cur = st->getElementType(k); }
        else { e += ".e[" + std::to_string(k) + "]"; cur = cast<ArrayType>(cur)->getElementType(); }
      }
      body << "  " << lhs << e << ";\n";
      return;
    }
    if (auto* iv = dyn_cast<InsertValueInst>(&I)) {
      std::string e = names[&I];
      Type* cur = I.getType();
      for (unsigned k : iv->indices()) {
        if (auto* st = dyn_cast<StructType>(cur)) { e += ".f" + std::to_string(k); cur = st->getElementType(k); }
        else { e += ".e[" + std::to_string(k) + "]"; cur = cast<ArrayType>(cur)->getElementType(); }
      }
      body << "  " << lhs << val(iv->getAggregateOperand()) << "; " << e << " = " << val(iv->getInsertedValueOperand()) << ";\n";
      return;
    }
    if (auto* fr = dyn_cast<FreezeInst>(&I)) { body << "  " << lhs << val(fr->getOperand(0)) << ";\n"; return; }
    if (auto* br = dyn_cast<BranchInst>(&I)) {
      if (br->isUnconditional()) { body << "  "; edge(I.getParent(), br->getSuccessor(0), body); body << "\n"; }
      else { body << "  if (" << val(br->getCondition()) << ") { "; edge(I.getParent(), br->getSuccessor(0), body); body << " } else { "; edge(I.getParent(), br->getSuccessor(1), body); body << " }\n"; }
      return;
    }
    if (auto* sw = dyn_cast<SwitchInst>(&I)) {
      body << "  switch (" << val(sw->getCondition()) << ") {\n";
      for (auto& c : sw->cases()) { body << "    case " << cexpr(C, c.getCaseValue(), false) << ": { "; edge(I.getParent(), c.getCaseSuccessor(), body); body << " }\n"; }
      body << "    default: { "; edge(I.getParent(), sw->getDefaultDest(), body); body << " }\n  }\n";
      return;
    }
    if (auto* r = dyn_cast<ReturnInst>(&I)) { if (r->getReturnValue()) body << "  return " << val(r->getReturnValue()) << ";\n"; else body << "  return;\n"; return; }
    if (isa<UnreachableInst>(I)) { body << "  vf_unreachable(); " << retZero() << "\n"; return; }
    if (isa<ResumeInst>(I)) { body << "  vf_lp_resume(); " << retZero() << " /* resume: the stashed exception is in flight again */\n"; return; }
    if (auto* lp = dyn_cast<LandingPadInst>(&I)) {
      std::string n = names[&I];
      // entering a pad takes the in-flight exception out of flight (stashed): calls made by cleanup code and handlers must
      // not see it as pending; resume (or a pad none of whose clauses match) puts it back, __cxa_begin_catch consumes it
      body << "  " << n << ".f0 = (uint8_t*)vf_exc; " << n << ".f1 = 0; vf_lp_enter();\n";
      std::string chain;
      bool any = lp->isCleanup();
      for (unsigned k = 0; k < lp->getNumClauses(); k++) {
        if (!lp->isCatch(k)) continue;
        Constant* cl = lp->getClause(k);
        auto* g = dyn_cast<GlobalVariable>(cl->stripPointerCasts());
        if (!g) { body << "  " << (chain.empty() ? "" : "else ") << "{ " << n << ".f1 = 0; vf_exc_caughtall = 1; }\n"; chain = "x"; any = true; break; }  // catch (...)
        body << "  " << (chain.empty() ? "" : "else ") << "if (vf_ti_is_a(vf_lp_ti(), &" << C.gname(g) << ")) " << n << ".f1 = " << C.tiid[g] << ";\n";
        chain = "x";
      }
      if (!lp->isCleanup()) {
        // a pad with no matching clause would not have been entered: keep unwinding
        bool catchall = false;
        for (unsigned k = 0; k < lp->getNumClauses(); k++) if (lp->isCatch(k) && isa<ConstantPointerNull>(lp->getClause(k)->stripPointerCasts())) catchall = true;
        if (!catchall) body << "  if (" << n << ".f1 == 0) { vf_lp_resume(); " << retZero() << " }\n";
      }
      (void)any;
      return;
    }
    if (auto* cb = dyn_cast<CallBase>(&I)) {
      if (isa<InlineAsm>(cb->getCalledOperand())) { body << "  /* inline asm ignored */\n"; if (auto* inv = dyn_cast<InvokeInst>(cb)) { body << "  "; edge(I.getParent(), inv->getNormalDest(), body); body << "\n"; } return; }
      if (intrinsic(*cb, lhs)) { if (auto* inv = dyn_cast<InvokeInst>(cb)) { body << "  "; edge(I.getParent(), inv->getNormalDest(), body); body << "\n"; } return; }
      if (Function* cf = cb->getCalledFunction()) {
        StringRef fn = cf->getName();
        if (fn == "strlen" && cb->arg_size() == 1) {
          uint64_t sl;
          if (constStrLen(cb->getArgOperand(0), sl)) {
            body << "  " << lhs << sl << "ull;\n";
            if (auto* inv = dyn_cast<InvokeInst>(cb)) { body << "  "; edge(I.getParent(), inv->getNormalDest(), body); body << "\n"; }
            return;
          }
        }
        if (fn == "vf_objcopy") {
          // whole-object copy requested by the library model: typed aggregate assignment when the static type is known
          auto* len = dyn_cast<ConstantInt>(cb->getArgOperand(2));
          Type* dt = len ? objTypeAt(C.DL, cb->getArgOperand(0), len->getZExtValue()) : nullptr;
          Type* st = len ? objTypeAt(C.DL, cb->getArgOperand(1), len->getZExtValue()) : nullptr;
          if (dt && dt == st) { std::string tn = C.ty(dt); body << "  *(" << tn << "*)" << val(cb->getArgOperand(0)) << " = *(" << tn << "*)" << val(cb->getArgOperand(1)) << ";\n"; }
          else { errs() << "warning: untyped vf_objcopy in " << F.getName() << "\n"; body << "  memcpy(" << val(cb->getArgOperand(0)) << ", " << val(cb->getArgOperand(1)) << ", " << val(cb->getArgOperand(2)) << ");\n"; }
          if (auto* inv = dyn_cast<InvokeInst>(cb)) { body << "  "; edge(I.getParent(), inv->getNormalDest(), body); body << "\n"; }
          return;
        }
        if (fn == "vf_check" || fn == "vf_fail" || fn == "vf_bound") {
          std::string lit;
          unsigned li = fn == "vf_check" ? 1 : 0;
          if (literalOf(cb->getArgOperand(li), lit)) {
            if (fn == "vf_check") body << "  VF_CHECK(" << val(cb->getArgOperand(0)) << ", \"" << lit << "\");\n";
            else if (fn == "vf_fail") body << "  VF_FAIL(\"" << lit << "\");\n";
            else body << "  vf_bound_hit = 1; VF_ASSUME(0); /* model bound: " << lit << " */\n";
            if (auto* inv = dyn_cast<InvokeInst>(cb)) { body << "  "; edge(I.getParent(), inv->getNormalDest(), body); body << "\n"; }
            return;
          }
          errs() << "warning: " << fn << " without literal label in " << F.getName() << "\n";
          if (fn == "vf_check") { body << "  VF_CHECK(" << val(cb->getArgOperand(0)) << ", \"harness check (no literal)\");\n"; if (auto* inv = dyn_cast<InvokeInst>(cb)) { body << "  "; edge(I.getParent(), inv->getNormalDest(), body); body << "\n"; } return; }
        }
        if (fn == "malloc" || fn == "_Znwm" || fn == "_Znam" || fn == "__cxa_allocate_exception") {
          // typed allocation: let the checker create an object of the pointee type, not a byte array
          Type* best = nullptr;
          uint64_t cn = 0; bool isc = false;
          if (auto* c = dyn_cast<ConstantInt>(cb->getArgOperand(0))) { cn = c->getZExtValue(); isc = true; }
          for (User* u : cb->users())
            if (auto* bc = dyn_cast<BitCastInst>(u)) {
              Type* e = bc->getType()->getPointerElementType();
              if (!e->isSized() || !(e->isStructTy() || e->isArrayTy())) continue;
              uint64_t sz = C.DL.getTypeAllocSize(e);
              if (isc ? (sz == cn) : true) { if (!best || C.DL.getTypeAllocSize(best) < sz) best = e; }
            }
          {   // the result is stored (as i8*) into a field whose static type is T*: take T
            std::vector<Type*> viaStore;
            for (User* u : cb->users())
              if (auto* st = dyn_cast<StoreInst>(u))
                if (st->getValueOperand() == cb) {
                  Type* dt = st->getPointerOperand()->stripPointerCasts()->getType()->getPointerElementType();
                  for (int dd = 0; dd < 6 && dt->isStructTy() && cast<StructType>(dt)->getNumElements(); dd++) dt = cast<StructType>(dt)->getElementType(0);   // address of an object = address of its first member
                  if (dt->isPointerTy()) { Type* e = dt->getPointerElementType(); if (e->isSized() && (e->isStructTy() || e->isArrayTy())) viaStore.push_back(e); }
                }
            if (!best) for (Type* e : viaStore) { uint64_t sz = C.DL.getTypeAllocSize(e); if (!isc || (sz && cn % sz == 0)) { if (!best || C.DL.getTypeAllocSize(best) < sz) best = e; } }
          }
          if (!best) {   // further evidence: the block is the destination of a whole-object copy, or is indexed / passed as a typed object
            std::vector<Value*> work{cb}; std::set<Value*> seen;
            while (!work.empty() && !best) {
              Value* cur = work.back(); work.pop_back();
              if (!seen.insert(cur).second) continue;
              for (User* u : cur->users()) {
                if (auto* bc = dyn_cast<BitCastInst>(u)) { work.push_back(bc); continue; }
                if (auto* g = dyn_cast<GetElementPtrInst>(u)) { if (g->getPointerOperand() == cur) { Type* e = g->getSourceElementType(); if (e->isSized() && (e->isStructTy() || e->isArrayTy())) { uint64_t sz = C.DL.getTypeAllocSize(e); if (!isc || (sz && cn % sz == 0)) { best = e; break; } } } continue; }
                if (auto* call = dyn_cast<CallBase>(u)) {
                  Function* cf2 = call->getCalledFunction();
                  if (cf2 && cf2->getName() == "vf_objcopy" && call->getArgOperand(0) == cur) { if (auto* len = dyn_cast<ConstantInt>(call->getArgOperand(2))) if (Type* t = objTypeAt(C.DL, call->getArgOperand(1), len->getZExtValue())) if (!isc || cn % len->getZExtValue() == 0) { best = t; break; } }
                  else if (cf2 && !cf2->isIntrinsic()) for (unsigned k = 0; k < call->arg_size(); k++) if (call->getArgOperand(k) == cur && cur->getType()->isPointerTy()) { Type* e = cur->getType()->getPointerElementType(); if (e->isSized() && (e->isStructTy() || e->isArrayTy())) { uint64_t sz = C.DL.getTypeAllocSize(e); if (!isc || (sz && cn % sz == 0)) { best = e; break; } } }
                }
              }
            }
          }
          if (!best && isc)   // constant-size array allocation: element type = largest cast-user aggregate whose size divides the allocation
            for (User* u : cb->users())
              if (auto* bc = dyn_cast<BitCastInst>(u)) {
                Type* e = bc->getType()->getPointerElementType();
                if (!e->isSized() || !(e->isStructTy() || e->isArrayTy())) continue;
                uint64_t sz = C.DL.getTypeAllocSize(e);
                if (sz && cn % sz == 0) { if (!best || C.DL.getTypeAllocSize(best) < sz) best = e; }
              }
          if (!best && isc) {
            // no exactly-sized cast user: pick the identified struct of that size whose leading-member chain contains a cast user type
            std::set<Type*> ut;
            for (User* u : cb->users()) if (auto* bc = dyn_cast<BitCastInst>(u)) ut.insert(bc->getType()->getPointerElementType());
            for (StructType* st : C.M.getIdentifiedStructTypes()) {
              if (st->isOpaque() || !st->isSized() || C.DL.getTypeAllocSize(st) != cn) continue;
              Type* t0 = st; bool hit = false;
              for (int d = 0; d < 6 && t0; d++) { if (ut.count(t0)) { hit = true; break; } auto* s0 = dyn_cast<StructType>(t0); t0 = (s0 && s0->getNumElements()) ? s0->getElementType(0) : nullptr; }
              if (hit) { best = st; break; }
            }
          }
          Type* scalar = nullptr;
          if (!best && isc) {   // scalar cell (e.g. a reference count): type it as that scalar
            for (User* u : cb->users())
              if (auto* bc = dyn_cast<BitCastInst>(u)) { Type* e = bc->getType()->getPointerElementType(); if ((e->isIntegerTy() || e->isPointerTy() || e->isDoubleTy() || e->isFloatTy()) && e->isSized() && C.DL.getTypeAllocSize(e) == cn) { scalar = e; break; } }
          }
          // among equally sized candidates prefer the outermost type (the one that has the other as its leading member chain)
          if (best && isc)
            for (User* u : cb->users())
              if (auto* bc = dyn_cast<BitCastInst>(u)) {
                Type* e = bc->getType()->getPointerElementType();
                if (e == best || !e->isSized() || !e->isStructTy() || C.DL.getTypeAllocSize(e) != C.DL.getTypeAllocSize(best)) continue;
                Type* t0 = e; bool wraps = false;
                for (int d = 0; d < 6 && t0; d++) { auto* s0 = dyn_cast<StructType>(t0); t0 = (s0 && s0->getNumElements()) ? s0->getElementType(0) : nullptr; if (t0 == best) { wraps = true; break; } }
                if (wraps) best = e;
              }
          if (best) C.allocType[cb] = best;
          std::string sz = val(cb->getArgOperand(0));
          if (best) { std::string tn = C.ty(best); body << "  " << lhs << "(uint8_t*)malloc(sizeof(" << tn << ") * (" << sz << " / sizeof(" << tn << ")));\n"; }
          else if (scalar) { std::string tn = C.ty(scalar); body << "  " << lhs << "(uint8_t*)malloc(sizeof(" << tn << "));\n"; }
          else body << "  " << lhs << "(uint8_t*)malloc(" << sz << ");\n";
          if (auto* inv = dyn_cast<InvokeInst>(cb)) { body << "  "; edge(I.getParent(), inv->getNormalDest(), body); body << "\n"; }
          return;
        }
        if (fn == "free" || fn == "_ZdlPv" || fn == "_ZdaPv" || fn == "_ZdlPvm") { body << "  free(" << val(cb->getArgOperand(0)) << ");\n"; if (auto* inv = dyn_cast<InvokeInst>(cb)) { body << "  "; edge(I.getParent(), inv->getNormalDest(), body); body << "\n"; } return; }
      }
      // Virtual call (callee loaded from slot K of the object's vtable): dispatch explicitly over the functions that
      // occupy slot K in some vtable of the module, instead of leaving an indirect call for the checker, which would
      // consider every address-taken function of a compatible shape (all destructors, all std::function thunks ...).
      {
        uint64_t K = 0; bool isv = false;
        if (!cb->getCalledFunction()) {
          if (auto* l1 = dyn_cast<LoadInst>(cb->getCalledOperand())) {
            Value* pp = l1->getPointerOperand();
            if (auto* g = dyn_cast<GetElementPtrInst>(pp)) { if (g->getNumIndices() == 1) if (auto* ci = dyn_cast<ConstantInt>(g->getOperand(1))) { K = ci->getZExtValue(); pp = g->getPointerOperand(); } }
            if (auto* l2 = dyn_cast<LoadInst>(pp)) if (isa<BitCastInst>(l2->getPointerOperand()) || l2->getPointerOperand()->getType()->getPointerElementType()->isPointerTy()) isv = true;
          }
        }
        std::vector<Function*> cands;
        if (isv) {
          for (GlobalVariable& gv : C.M.globals()) {
            if (!gv.getName().startswith("_ZTV") || !gv.hasInitializer()) continue;
            auto* cs = dyn_cast<ConstantStruct>(gv.getInitializer());
            if (!cs) continue;
            for (unsigned m = 0; m < cs->getNumOperands(); m++) {
              auto* ca = dyn_cast<ConstantArray>(cs->getOperand(m));
              if (!ca || 2 + K >= ca->getNumOperands()) continue;
              auto* fn = dyn_cast<Function>(ca->getOperand(2 + K)->stripPointerCasts());
              if (!fn || fn->getName() == "__cxa_pure_virtual" || fn->arg_size() != cb->arg_size()) continue;
              if (fn->getReturnType()->isVoidTy() != cb->getType()->isVoidTy()) continue;
              if (std::find(cands.begin(), cands.end(), fn) == cands.end()) cands.push_back(fn);
            }
          }
        }
        // Plain indirect call (e.g. the thunks of the std::function model): dispatch over the address-taken functions whose
        // LLVM function type is exactly the call's type (typed pointers keep e.g. BasePlugin*(i8*) and PrekillHook*(i8*) apart).
        if (!isv && !cb->getCalledFunction() && !isa<InlineAsm>(cb->getCalledOperand())) {
          for (Function& fn : C.M) {
            if (fn.isIntrinsic() || fn.getFunctionType() != cb->getFunctionType() || !fn.hasAddressTaken()) continue;
            cands.push_back(&fn);
          }
          if (!cands.empty() && cands.size() <= 12) isv = true; else cands.clear();
        }
        if (isv && !cands.empty()) {
          std::string fpv = val(cb->getCalledOperand());
          body << "  if (0) {}\n";
          for (Function* fn : cands) {
            std::string args;
            for (unsigned k = 0; k < cb->arg_size(); k++) {
              std::string a = val(cb->getArgOperand(k));
              Type* pt = fn->getFunctionType()->getParamType(k);
              if (pt != cb->getArgOperand(k)->getType()) a = "((" + C.ty(pt) + ")" + a + ")";
              args += (k ? ", " : "") + a;
            }
            std::string call = C.gname(fn) + "(" + args + ")";
            if (!I.getType()->isVoidTy() && fn->getReturnType() != I.getType()) call = "((" + C.ty(I.getType()) + ")" + call + ")";
            body << "  else if ((const void*)" << fpv << " == (const void*)&" << C.gname(fn) << ") { " << lhs << call << "; }\n";
          }
          body << "  else { VF_FAIL(\"indirect call: target is not among the functions of that vtable slot / type\"); }\n";
          afterCall(*cb);
          return;
        }
      }
      std::string args;
      for (unsigned k = 0; k < cb->arg_size(); k++) {
        std::string a = val(cb->getArgOperand(k));
        if (cb->isByValArgument(k)) {  // callee gets a private copy
          Type* et = cb->getParamByValType(k);
          std::string tn = "bv" + std::to_string(nv++);
          decl << "  " << C.ty(et) << " " << tn << ";\n";
          body << "  " << tn << " = *" << a << ";\n";
          a = "&" + tn;
        }
        args += (k ? ", " : "") + a;
      }
      body << "  " << lhs << callee(*cb) << "(" << args << ");\n";
      afterCall(*cb);
      return;
    }
    if (auto* rmw = dyn_cast<AtomicRMWInst>(&I)) {
      std::string p = val(rmw->getPointerOperand()), v = val(rmw->getValOperand());
      const char* op = "+";
      switch (rmw->getOperation()) { case AtomicRMWInst::Add: op = "+"; break; case AtomicRMWInst::Sub: op = "-"; break; case AtomicRMWInst::And: op = "&"; break; case AtomicRMWInst::Or: op = "|"; break; case AtomicRMWInst::Xor: op = "^"; break; case AtomicRMWInst::Xchg: op = nullptr; break; default: errs() << "rmw op\n"; }
      body << "  __CPROVER_atomic_begin(); " << lhs << "*" << p << "; *" << p << " = " << (op ? "(" + T + ")(*" + p + " " + op + " " + v + ")" : v) << "; __CPROVER_atomic_end();\n";
      return;
    }
    if (isa<FenceInst>(I)) return;
    errs() << "unsupported instruction: " << I << "\n";
    body << "  vf_unsupported(\"inst\");\n";
  }
};

int main(int argc, char** argv) {
  if (argc < 3) { fprintf(stderr, "usage: ll2c in.ll out.c\n"); return 2; }
  LLVMContext ctx;
  SMDiagnostic err;
  auto M = parseIRFile(argv[1], err, ctx);
  if (!M) { err.print("ll2c", errs()); return 1; }
  Ctx C(*M);
  // typeinfo table
  int id = 1;
  for (GlobalVariable& g : M->globals()) if (g.getName().startswith("_ZTI")) C.tiid[&g] = id++;
  // globals
  std::ostringstream gdecl, gdef;
  for (GlobalVariable& g : M->globals()) {
    if (g.getName().startswith("llvm.")) continue;
    if (g.getName().startswith("_ZTS")) continue;
    std::string n = C.gname(&g);
    if (g.getName().startswith("_ZTI")) {
      std::string base = "0";
      if (g.hasInitializer()) if (auto* cs = dyn_cast<ConstantStruct>(g.getInitializer())) if (cs->getNumOperands() >= 3) if (auto* b = dyn_cast<GlobalVariable>(cs->getOperand(2)->stripPointerCasts())) base = "&" + C.gname(b);
      gdecl << "extern struct vf_typeinfo " << n << ";\n";
      gdef << "struct vf_typeinfo " << n << " = { " << base << ", " << C.tiid[&g] << " };\n";
      continue;
    }
    std::string t = C.ty(g.getValueType());
    if (g.isDeclaration()) { gdecl << "extern " << t << " " << n << ";\n"; C.externs.insert("DATA " + n); continue; }
    gdecl << (g.hasLocalLinkage() ? "static " : "extern ") << t << " " << n << ";\n";
  }
  // function prototypes
  std::ostringstream fproto;
  for (Function& f : *M) {
    if (f.isIntrinsic()) continue;
    std::string n = C.gname(&f);
    FunctionType* ft = f.getFunctionType();
    std::string a;
    for (unsigned i = 0; i < ft->getNumParams(); i++) a += (i ? ", " : "") + C.ty(ft->getParamType(i)) + " a" + std::to_string(i);
    if (ft->isVarArg()) a += a.empty() ? "" : ", ...";
    if (a.empty() && !ft->isVarArg()) a = "void";
    if (f.isDeclaration() && f.getName().startswith("vf_")) { for (unsigned i = 0; i < ft->getNumParams(); i++) C.ty(ft->getParamType(i)); C.ty(ft->getReturnType()); continue; }  /* declared in vf_rt.h */
    fproto << (f.hasLocalLinkage() && !f.isDeclaration() ? "static " : "") << C.ty(ft->getReturnType()) << " " << n << "(" << a << ");\n";
    if (f.isDeclaration()) C.externs.insert("FUNC " + n);
  }
  // global definitions (after prototypes: initializers may reference functions)
  for (GlobalVariable& g : M->globals()) {
    if (g.getName().startswith("llvm.") || g.getName().startswith("_ZTS") || g.getName().startswith("_ZTI") || g.isDeclaration()) continue;
    std::string n = C.gname(&g), t = C.ty(g.getValueType());
    gdef << (g.hasLocalLinkage() ? "static " : "") << t << " " << n << " = " << cexpr(C, g.getInitializer(), true) << ";\n";
  }
  // functions
  std::ostringstream fdef;
  for (Function& f : *M) {
    if (f.isDeclaration()) continue;
    FnEmit E(C, f);
    E.run();
    FunctionType* ft = f.getFunctionType();
    std::string a;
    for (unsigned i = 0; i < ft->getNumParams(); i++) a += (i ? ", " : "") + C.ty(ft->getParamType(i)) + " a" + std::to_string(i);
    if (ft->isVarArg()) a += a.empty() ? "" : ", ...";
    if (a.empty() && !ft->isVarArg()) a = "void";
    fdef << "/* " << f.getName().str() << " */\n" << (f.hasLocalLinkage() ? "static " : "") << C.ty(ft->getReturnType()) << " " << C.gname(&f) << "(" << a << ") {\n" << E.decl.str() << E.body.str() << "}\n\n";
  }
  // global constructors
  std::ostringstream ctors;
  ctors << "void vf_global_ctors(void) {\n";
  if (auto* gc = M->getGlobalVariable("llvm.global_ctors"))
    if (auto* ca = dyn_cast<ConstantArray>(gc->getInitializer())) {
      std::vector<std::pair<uint64_t, Function*>> v;
      for (auto& o : ca->operands()) { auto* cs = cast<ConstantStruct>(o); if (auto* fn = dyn_cast<Function>(cs->getOperand(1)->stripPointerCasts())) v.push_back({cast<ConstantInt>(cs->getOperand(0))->getZExtValue(), fn}); }
      std::stable_sort(v.begin(), v.end(), [](auto& x, auto& y) { return x.first < y.first; });
      for (auto& p : v) ctors << "  " << C.gname(p.second) << "();\n";
    }
  ctors << "}\n";
  std::error_code ec;
  raw_fd_ostream out(argv[2], ec);
  out << "/* generated by ll2c from " << argv[1] << " */\n#include \"vf_rt.h\"\n" << C.types.str() << "\n" << gdecl.str() << "\n" << fproto.str() << "\n" << gdef.str() << "\n" << fdef.str() << ctors.str();
  for (auto& e : C.externs) errs() << "EXTERN " << e << "\n";
  return 0;
}
