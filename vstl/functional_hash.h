#pragma once
#include <bits/vf.h>
namespace std {
template <class T> struct hash;
#define VSTL_H(T) template <> struct hash<T> { size_t operator()(T v) const noexcept { return (size_t)v; } };
VSTL_H(int) VSTL_H(unsigned) VSTL_H(long) VSTL_H(unsigned long) VSTL_H(long long) VSTL_H(unsigned long long) VSTL_H(char) VSTL_H(bool) VSTL_H(short) VSTL_H(unsigned short) VSTL_H(unsigned char)
template <class T> struct hash<T*> { size_t operator()(T* p) const noexcept { return (size_t)p; } };
}
