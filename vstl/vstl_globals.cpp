// definitions of the standard stream objects of the vstl model (linked into harnesses whose code names std::cerr etc.)
#include <iostream>
namespace std { ostream cerr; ostream cout; ostream clog; istream cin; }
