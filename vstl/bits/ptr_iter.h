#pragma once
#include <utility>
namespace std {
struct random_access_iterator_tag;
/* class-type random access iterator over contiguous storage (so ADL finds std:: algorithms, as with libstdc++'s __normal_iterator) */
template <class T, class Owner> class __ptr_iter { T* p_; public:
  typedef remove_cv_t<T> value_type; typedef T& reference; typedef T* pointer; typedef ptrdiff_t difference_type; typedef random_access_iterator_tag iterator_category;
  constexpr __ptr_iter() noexcept : p_(nullptr) {} constexpr explicit __ptr_iter(T* p) noexcept : p_(p) {}
  template <class U, class = enable_if_t<is_convertible<U*, T*>::value>> constexpr __ptr_iter(const __ptr_iter<U, Owner>& o) noexcept : p_(o.base()) {}
  constexpr T* base() const noexcept { return p_; } constexpr T& operator*() const { return *p_; } constexpr T* operator->() const { return p_; } constexpr T& operator[](ptrdiff_t i) const { return p_[i]; }
  constexpr __ptr_iter& operator++() { ++p_; return *this; } constexpr __ptr_iter operator++(int) { return __ptr_iter(p_++); } constexpr __ptr_iter& operator--() { --p_; return *this; } constexpr __ptr_iter operator--(int) { return __ptr_iter(p_--); }
  constexpr __ptr_iter& operator+=(ptrdiff_t n) { p_ += n; return *this; } constexpr __ptr_iter& operator-=(ptrdiff_t n) { p_ -= n; return *this; }
  constexpr __ptr_iter operator+(ptrdiff_t n) const { return __ptr_iter(p_ + n); } constexpr __ptr_iter operator-(ptrdiff_t n) const { return __ptr_iter(p_ - n); }
};
template <class T, class U, class O> constexpr ptrdiff_t operator-(const __ptr_iter<T, O>& a, const __ptr_iter<U, O>& b) { return a.base() - b.base(); }
template <class T, class O> constexpr __ptr_iter<T, O> operator+(ptrdiff_t n, const __ptr_iter<T, O>& a) { return a + n; }
#define VSTL_PI_CMP(OP) template <class T, class U, class O> constexpr bool operator OP(const __ptr_iter<T, O>& a, const __ptr_iter<U, O>& b) { return a.base() OP b.base(); }
VSTL_PI_CMP(==) VSTL_PI_CMP(!=) VSTL_PI_CMP(<) VSTL_PI_CMP(<=) VSTL_PI_CMP(>) VSTL_PI_CMP(>=)
}
