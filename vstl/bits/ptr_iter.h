#pragma once
#include <utility>
namespace std {
struct random_access_iterator_tag;
/* class-type random access iterator over contiguous storage (so ADL finds std:: algorithms, as with libstdc++'s
 * __normal_iterator). It is kept as (storage base, index): iterator comparisons and distances are *integer* operations
 * on the index, which the symbolic executor constant-folds even when the storage pointer itself is not a propagated
 * constant (pointer-valued loop bounds made every container loop unroll to the unwind limit). Dereferencing goes
 * through base[index], so use after reallocation / free is still a pointer-check failure. */
template <class T, class Owner> class __ptr_iter { T* b_; ptrdiff_t i_; public:
  typedef remove_cv_t<T> value_type; typedef T& reference; typedef T* pointer; typedef ptrdiff_t difference_type; typedef random_access_iterator_tag iterator_category;
  constexpr __ptr_iter() noexcept : b_(nullptr), i_(0) {} constexpr explicit __ptr_iter(T* p) noexcept : b_(p), i_(0) {} constexpr __ptr_iter(T* b, ptrdiff_t i) noexcept : b_(b), i_(i) {}
  template <class U, class = enable_if_t<is_convertible<U*, T*>::value>> constexpr __ptr_iter(const __ptr_iter<U, Owner>& o) noexcept : b_(o.__b()), i_(o.__i()) {}
  constexpr T* __b() const noexcept { return b_; } constexpr ptrdiff_t __i() const noexcept { return i_; }
  constexpr T* base() const noexcept { return b_ + i_; } constexpr T& operator*() const { return b_[i_]; } constexpr T* operator->() const { return b_ + i_; } constexpr T& operator[](ptrdiff_t k) const { return b_[i_ + k]; }
  constexpr __ptr_iter& operator++() { ++i_; return *this; } constexpr __ptr_iter operator++(int) { __ptr_iter t(*this); ++i_; return t; } constexpr __ptr_iter& operator--() { --i_; return *this; } constexpr __ptr_iter operator--(int) { __ptr_iter t(*this); --i_; return t; }
  constexpr __ptr_iter& operator+=(ptrdiff_t n) { i_ += n; return *this; } constexpr __ptr_iter& operator-=(ptrdiff_t n) { i_ -= n; return *this; }
  constexpr __ptr_iter operator+(ptrdiff_t n) const { return __ptr_iter(b_, i_ + n); } constexpr __ptr_iter operator-(ptrdiff_t n) const { return __ptr_iter(b_, i_ - n); }
};
template <class T, class U, class O> constexpr ptrdiff_t operator-(const __ptr_iter<T, O>& a, const __ptr_iter<U, O>& b) { return a.__i() - b.__i(); }
template <class T, class O> constexpr __ptr_iter<T, O> operator+(ptrdiff_t n, const __ptr_iter<T, O>& a) { return a + n; }
#define VSTL_PI_CMP(OP) template <class T, class U, class O> constexpr bool operator OP(const __ptr_iter<T, O>& a, const __ptr_iter<U, O>& b) { return a.__i() OP b.__i(); }
VSTL_PI_CMP(==) VSTL_PI_CMP(!=) VSTL_PI_CMP(<) VSTL_PI_CMP(<=) VSTL_PI_CMP(>) VSTL_PI_CMP(>=)
}
