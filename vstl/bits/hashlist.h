#pragma once
#include <utility>
#include <iterator>
#include <new>
#include <functional_hash.h>
#include <functional>
#include <initializer_list>
#include <stdexcept>
/* Node-based associative container core shared by unordered_map/unordered_set/map/set models.
 * Nodes are individually heap allocated and freed on erase, so use of an erased iterator/reference is a
 * use-after-free the checker sees. `Ordered` keeps nodes sorted by key (std::map/set); otherwise new nodes
 * go to the FRONT (an arbitrary but fixed iteration order: real hash order is unspecified). */
#ifndef VSTL_MAP_MAX
#define VSTL_MAP_MAX 8
#endif
namespace std { namespace __vstl {
template <class V> struct node { V v; node* next; template <class... A> node(A&&... a) : v(std::forward<A>(a)...), next(nullptr) {} };
template <class V, bool Const> struct iter { typedef V value_type; typedef conditional_t<Const, const V&, V&> reference; typedef conditional_t<Const, const V*, V*> pointer; typedef ptrdiff_t difference_type; typedef forward_iterator_tag iterator_category;
  /* (node, number of nodes from here to the end): termination tests compare the integer, which the symbolic executor
   * constant-folds even when the next-pointers are not propagated constants (otherwise every loop over a container unrolls to the unwind limit) */
  node<V>* n; size_t rem; iter() : n(nullptr), rem(0) {} iter(node<V>* p, size_t r) : n(p), rem(r) {} iter(const iter<V, false>& o) : n(o.n), rem(o.rem) {}
  reference operator*() const { if (!rem) vf_fail("UB: dereference of end() iterator"); return n->v; } pointer operator->() const { if (!rem) vf_fail("UB: dereference of end() iterator"); return &n->v; }
  iter& operator++() { if (!rem) vf_fail("UB: increment of end() iterator"); n = n->next; rem--; return *this; } iter operator++(int) { iter t = *this; ++*this; return t; }
  template <bool C2> bool operator==(const iter<V, C2>& o) const { return rem == o.rem; } template <bool C2> bool operator!=(const iter<V, C2>& o) const { return rem != o.rem; } };
template <class K, class V, class KeyOf, class Eq, class Less, bool Ordered> class list {
 public: node<V>* h_; size_t n_;
  typedef iter<V, false> iterator; typedef iter<V, true> const_iterator;
  list() : h_(nullptr), n_(0) {} list(const list& o) : h_(nullptr), n_(0) { copy_from(o); } list(list&& o) noexcept : h_(o.h_), n_(o.n_) { o.h_ = nullptr; o.n_ = 0; }
  ~list() { clear(); } list& operator=(const list& o) { if (this != &o) { clear(); copy_from(o); } return *this; } list& operator=(list&& o) noexcept { if (this != &o) { clear(); h_ = o.h_; n_ = o.n_; o.h_ = nullptr; o.n_ = 0; } return *this; }
  void copy_from(const list& o) { node<V>** t = &h_; node<V>* p = o.h_; for (size_t i = 0; i < o.n_; i++, p = p->next) { node<V>* q = new node<V>(p->v); *t = q; t = &q->next; n_++; } }
  void clear() noexcept { node<V>* p = h_; size_t k = n_; h_ = nullptr; n_ = 0; for (size_t i = 0; i < k; i++) { node<V>* q = p->next; delete p; p = q; } }
  node<V>* find_node(const K& k, size_t* rem = nullptr) const { node<V>* p = h_; for (size_t i = 0; i < n_; i++, p = p->next) if (Eq()(KeyOf()(p->v), k)) { if (rem) *rem = n_ - i; return p; } if (rem) *rem = 0; return nullptr; }
  iterator find_it(const K& k) const { size_t r = 0; node<V>* p = find_node(k, &r); return iterator(p, r); }
  /* returns the new node and (via *rem) its distance to the end */
  node<V>* link(node<V>* q, size_t* rem) { if (n_ >= VSTL_MAP_MAX) vf_bound("associative container size"); size_t pos = 0; if constexpr (!Ordered) { q->next = h_; h_ = q; } else { node<V>** t = &h_; while (pos < n_ && Less()(KeyOf()((*t)->v), KeyOf()(q->v))) { t = &(*t)->next; pos++; } q->next = *t; *t = q; } n_++; *rem = n_ - pos; return q; }
  template <class... A> pair<iterator, bool> emplace(A&&... a) { node<V>* q = new node<V>(std::forward<A>(a)...); size_t r = 0; if (node<V>* p = find_node(KeyOf()(q->v), &r)) { delete q; return pair<iterator, bool>(iterator(p, r), false); } node<V>* x = link(q, &r); return pair<iterator, bool>(iterator(x, r), true); }
  iterator erase_node(node<V>* x) { if (!x) vf_fail("UB: erase(end())"); node<V>** t = &h_; size_t pos = 0; while (pos < n_ && *t != x) { t = &(*t)->next; pos++; } if (pos >= n_) vf_fail("UB: erase of iterator not in container"); node<V>* nx = x->next; *t = nx; n_--; delete x; return iterator(nx, n_ - pos); }
  size_t erase_key(const K& k) { node<V>* p = find_node(k); if (!p) return 0; erase_node(p); return 1; }
}; } }
