#pragma once
#include <vf_cxx.h>
#include <string.h>
#include <stdlib.h>
#include <limits.h>
namespace std {
using ::size_t; using ::ptrdiff_t;
using ::int8_t; using ::int16_t; using ::int32_t; using ::int64_t;
using ::uint8_t; using ::uint16_t; using ::uint32_t; using ::uint64_t;
using ::intptr_t; using ::uintptr_t; using ::intmax_t; using ::uintmax_t;
typedef decltype(nullptr) nullptr_t;
}
