#pragma once
#include <bits/hashlist.h>
#include <iterator>
namespace std { namespace __vstl {
template <class K> struct key_self { const K& operator()(const K& v) const { return v; } };
template <class K, class M> struct key_first { const K& operator()(const pair<const K, M>& v) const { return v.first; } };
template <class K> struct eq_by_less { bool operator()(const K& a, const K& b) const { return !(a < b) && !(b < a); } };
template <class K, class M, class Eq, class Less, bool Ord> class mapimpl {
  typedef pair<const K, M> V; list<K, V, key_first<K, M>, Eq, Less, Ord> l_;
 public: typedef K key_type; typedef M mapped_type; typedef V value_type; typedef typename decltype(l_)::iterator iterator; typedef typename decltype(l_)::const_iterator const_iterator; typedef size_t size_type;
  mapimpl() {} mapimpl(initializer_list<V> il) { for (const V& v : il) l_.emplace(v); } template <class It> mapimpl(It b, It e) { for (; b != e; ++b) l_.emplace(*b); }
  iterator begin() noexcept { return iterator(l_.h_, l_.n_); } iterator end() noexcept { return iterator(); } const_iterator begin() const noexcept { return const_iterator(l_.h_, l_.n_); } const_iterator end() const noexcept { return const_iterator(); } const_iterator cbegin() const noexcept { return begin(); } const_iterator cend() const noexcept { return end(); }
  size_t size() const noexcept { return l_.n_; } bool empty() const noexcept { return l_.n_ == 0; } void clear() noexcept { l_.clear(); } void reserve(size_t) {}
  iterator find(const K& k) { return l_.find_it(k); } const_iterator find(const K& k) const { return const_iterator(l_.find_it(k)); }
  size_t count(const K& k) const { return l_.find_node(k) ? 1 : 0; } bool contains(const K& k) const { return l_.find_node(k) != nullptr; }
  M& operator[](const K& k) { if (auto* p = l_.find_node(k)) return p->v.second; return l_.emplace(piecewise_construct, k).first->second; }
  M& at(const K& k) { auto* p = l_.find_node(k); if (!p) throw out_of_range("map::at"); return p->v.second; } const M& at(const K& k) const { auto* p = l_.find_node(k); if (!p) throw out_of_range("map::at"); return p->v.second; }
  template <class... A> pair<iterator, bool> emplace(A&&... a) { return l_.emplace(std::forward<A>(a)...); } template <class... A> iterator emplace_hint(const_iterator, A&&... a) { return l_.emplace(std::forward<A>(a)...).first; }
  template <class... A> pair<iterator, bool> try_emplace(const K& k, A&&... a) { size_t r_ = 0; if (auto* p = l_.find_node(k, &r_)) return pair<iterator, bool>(iterator(p, r_), false); return l_.emplace(piecewise_construct, k, std::forward<A>(a)...); }
  pair<iterator, bool> insert(const V& v) { return l_.emplace(v); } pair<iterator, bool> insert(V&& v) { return l_.emplace(std::move(v)); } template <class It> void insert(It b, It e) { for (; b != e; ++b) l_.emplace(*b); }
  template <class O> pair<iterator, bool> insert_or_assign(const K& k, O&& o) { size_t r_ = 0; if (auto* p = l_.find_node(k, &r_)) { p->v.second = std::forward<O>(o); return pair<iterator, bool>(iterator(p, r_), false); } return l_.emplace(k, std::forward<O>(o)); }
  iterator erase(const_iterator it) { return l_.erase_node(it.n); } iterator erase(iterator it) { return l_.erase_node(it.n); } size_t erase(const K& k) { return l_.erase_key(k); }
  iterator erase(const_iterator b, const_iterator e) { iterator it(b.n, b.rem); while (it.rem != e.rem) { it = l_.erase_node(it.n); } return it; }
  friend bool operator==(const mapimpl& a, const mapimpl& b) { if (a.size() != b.size()) return false; for (const auto& kv : a) { auto it = b.find(kv.first); if (it == b.end() || !(it->second == kv.second)) return false; } return true; }
};
template <class K, class Eq, class Less, bool Ord> class setimpl {
  list<K, K, key_self<K>, Eq, Less, Ord> l_;
 public: typedef K key_type; typedef K value_type; typedef typename decltype(l_)::const_iterator iterator; typedef iterator const_iterator; typedef size_t size_type;
  setimpl() {} setimpl(initializer_list<K> il) { for (const K& v : il) l_.emplace(v); } template <class It> setimpl(It b, It e) { for (; b != e; ++b) l_.emplace(*b); }
  iterator begin() const noexcept { return iterator(l_.h_, l_.n_); } iterator end() const noexcept { return iterator(); } iterator cbegin() const noexcept { return begin(); } iterator cend() const noexcept { return end(); }
  size_t size() const noexcept { return l_.n_; } bool empty() const noexcept { return l_.n_ == 0; } void clear() noexcept { l_.clear(); } void reserve(size_t) {}
  iterator find(const K& k) const { return iterator(l_.find_it(k)); } size_t count(const K& k) const { return l_.find_node(k) ? 1 : 0; } bool contains(const K& k) const { return l_.find_node(k) != nullptr; }
  template <class... A> pair<iterator, bool> emplace(A&&... a) { auto r = l_.emplace(std::forward<A>(a)...); return pair<iterator, bool>(iterator(r.first), r.second); }
  pair<iterator, bool> insert(const K& v) { return emplace(v); } pair<iterator, bool> insert(K&& v) { return emplace(std::move(v)); } template <class It> void insert(It b, It e) { for (; b != e; ++b) l_.emplace(*b); }
  iterator erase(iterator it) { return iterator(l_.erase_node(it.n)); } size_t erase(const K& k) { return l_.erase_key(k); }
  friend bool operator==(const setimpl& a, const setimpl& b) { if (a.size() != b.size()) return false; for (const auto& k : a) if (!b.contains(k)) return false; return true; }
};
} }
